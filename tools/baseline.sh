#!/bin/bash
# tools/baseline.sh [repo_dir]  - run the pinned test command against repo_dir (default /repo)
# and compare the set of passing tests with /root/.vp/BASELINE.json (stable_pass).
# Exit 0 when every stable_pass test still passes.
REPO="${1:-/repo}"
OUT="$(mktemp -d /tmp/baseline-XXXXXX)"
trap 'rm -rf "$OUT"' EXIT
cd "$REPO" || exit 2
PYTHONPATH="$REPO" /venv/bin/python -m pytest -ra -q -p no:cacheprovider --timeout=900 \
   --continue-on-collection-errors ${BASELINE_XDIST:+-n $BASELINE_XDIST} --junitxml="$OUT/j.xml" > "$OUT/log" 2>&1
# the suite's monitor test leaves an orphaned `python -m tdgl.visualize ... monitor` process spinning at 100% CPU: remove ours
for pid in $(pgrep -f "tdgl[.]visualize.*monitor"); do
  if [ "$(readlink -f /proc/$pid/cwd 2>/dev/null)" = "$(readlink -f "$REPO")" ]; then kill "$pid" 2>/dev/null; fi
done
tail -2 "$OUT/log"
/venv/bin/python - "$OUT/j.xml" <<'PY'
import json, sys, xml.etree.ElementTree as ET
base = set(json.load(open("/root/.vp/BASELINE.json"))["stable_pass"])
root = ET.parse(sys.argv[1]).getroot()
passed = set()
why = {}
for tc in root.iter("testcase"):
    bad = [ch for ch in tc if ch.tag in ("failure", "error", "skipped")]
    if not bad:
        passed.add(f"{tc.get('classname')}::{tc.get('name')}")
    else:
        why[f"{tc.get('classname')}::{tc.get('name')}"] = (bad[0].get("message") or "")[:160].replace("\n", " ")
missing = sorted(base - passed)
print(f"baseline stable_pass={len(base)} passed_now={len(passed)} missing={len(missing)}")
for m in missing[:20]:
    print("  MISSING", m, "|", why.get(m, "not run"))
sys.exit(1 if missing else 0)
PY
