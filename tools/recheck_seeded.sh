#!/bin/bash
# tools/recheck_seeded.sh [dir-glob]: every seeded change must still be reported by the check of the property it breaks.
cd "$(dirname "$0")/.."
fail=0
for d in seeded/${1:-*}/; do
  d=${d%/}
  id=$(python3 -c "import json,sys; m=json.load(open('$d/meta.json')); print(' '.join(m.get('recheck_with') or [m.get('breaks_property') or m.get('property')]))")
  out=$(tools/mutate.sh $d/patch.diff $id 2>&1 | grep "^== ")
  n=$(echo "$out" | sed -n 's/.*VIOLATION lines=\([0-9]*\).*/\1/p')
  echo "$(basename $d) $id violations=${n:-?}"
  [ "${n:-0}" -gt 0 ] || fail=1
done
exit $fail
