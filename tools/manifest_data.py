NOTES = ("All checks are bounded-exhaustive explorations of the real implementation (no model stands between the "
         "check and the code except for C09's kernel interleaving exploration, which runs the Python source numba compiled). "
         "VERIF_SEED rotates enumeration order and seeds generated alphabets; it never selects which cases run.")
NOT_APPLICABLE = {}
CHECKS = {
 "C05": dict(
   engine="mc-core", category="model_checking", design_ref="DESIGN.md 3/C05, Appendix A",
   technique="deviation-bounded environment-script exploration of the real run loop against an executable recorder specification",
   text=("Every (save interval, run length, thermalisation, probes, screening, time-step script) history within the bound is executed on the real "
         "Runner/RunningState/DataHandler/Solution/DynamicsData with the update replaced by a scripted environment, and every frame label, frame time, "
         "frame content (update count), per-step column and Solution.times/dynamics entry is compared with RM-recorder; a second family runs the real adaptive update "
         "against a by-hand re-execution. The loop's only state is (stage, step mod k, buffer cursor), all of whose values are reached within the bound."),
   note="trusts h5py for reading frames back; scripted family replaces TDGLSolver.update only; time steps are powers of two (exact sums); run lengths beyond the bound rest on the small-state argument"),
}
