NOTES = ("All checks are bounded-exhaustive explorations of the real implementation (no model stands between the "
         "check and the code except for C09's kernel interleaving exploration, which runs the Python source numba compiled). "
         "VERIF_SEED rotates enumeration order and seeds generated alphabets; it never selects which cases run.")
NOT_APPLICABLE = {}
CHECKS = {
 "C05": dict(
   engine="mc-core", category="model_checking", design_ref="DESIGN.md 3/C05, Appendix A",
   technique="deviation-bounded environment-script exploration of the real run loop against an executable recorder specification",
   text=("Every (save interval, run length, thermalisation, probes, screening, time-step script) history within the bound is executed on the real "
         "Runner/RunningState/DataHandler/Solution/DynamicsData with the update replaced by a scripted environment, and every frame label, frame time, "
         "frame content (update count), per-step column and Solution.times/dynamics entry is compared with RM-recorder; a second family runs the real adaptive update "
         "against a by-hand re-execution. The loop's only state is (stage, step mod k, buffer cursor), all of whose values are reached within the bound."),
   note="trusts h5py for reading frames back; scripted family replaces TDGLSolver.update only; time steps are powers of two (exact sums); run lengths beyond the bound rest on the small-state argument"),
 "C10": dict(
   engine="mc-core", category="model_checking", design_ref="DESIGN.md 3/C10",
   technique="explicit-state BFS to fixpoint over set_link_exponents histories (state = all mutable operator fields) + exhaustive scripted A(t) sequences through the real update",
   text=("Per (mesh, pinned-site set) the history space of MeshOperators.set_link_exponents over a 7-letter alphabet of potentials (zero, repeats as new objects, 5e-6 relative increments, "
         "wrapping phases, seeded per-edge) is explored breadth-first to a fixpoint with every mutable field in the state hash, and all histories up to depth 3/4 are run again without de-duplication; "
         "after every event both covariant operators are compared entrywise with a fresh rebuild for the latest potential. At solver level every script of per-step field increments of length 5/6 "
         "(and 3/4 with screening) is driven through the real TDGLSolver.update and the Laplacian actually handed to solve_for_psi_squared is compared with a rebuild."),
   note="differential oracle: the rebuild uses the library's own first-call builder (absolute correctness of the builders is C03/C04); potentials outside the alphabet rest on the affine dependence of each entry on one link variable"),
 "C15": dict(
   engine="mc-core", category="fault_enumeration", design_ref="DESIGN.md 3/C15, Appendix A",
   technique="exhaustive fault-point enumeration (every update call, writer call and HDF5 write op) on the real run loop and data handler, compared with the recorder specification truncated at the stop",
   text=("Every point at which a bounded run can stop is taken in turn: each update call of both stages, each frame-writer call and (after a dry run that counts them) each HDF5 write operation inside the writer, "
         "for an injected exception and for KeyboardInterrupt with pause off / pause+'n' / pause+'y', crossed with output path shapes and all 16 subsets of pre-existing files. After each execution the harness audits open HDF5 handles, "
         "the sandbox and private temp directory, pre-existing files (bytes and mtime), the frames in the output (complete, labelled, timed and filled as RM-recorder demands before the stop) and the usability of the returned partial solution."),
   note="update replaced by the scripted environment; HDF5 write ops = create_group/__setitem__/attrs.__setitem__/Dataset.__setitem__/flush; resume ('y') checked for cleanliness only; extension-less or unwritable output paths are outside the alphabet (non-terminating path search, recorded in DESIGN.md)"),
}
