NOTES = ("All checks are bounded-exhaustive explorations of the real implementation (no model stands between the "
         "check and the code except for C09's kernel interleaving exploration, which runs the Python source numba compiled). "
         "VERIF_SEED rotates enumeration order and seeds generated alphabets; it never selects which cases run.")
NOT_APPLICABLE = {}
CHECKS = {
 "C05": dict(
   engine="mc-core", category="model_checking", design_ref="DESIGN.md 3/C05, Appendix A",
   technique="deviation-bounded environment-script exploration of the real run loop against an executable recorder specification",
   text=("Every (save interval, run length, thermalisation, probes, screening, time-step script) history within the bound is executed on the real "
         "Runner/RunningState/DataHandler/Solution/DynamicsData with the update replaced by a scripted environment, and every frame label, frame time, "
         "frame content (update count), per-step column and Solution.times/dynamics entry is compared with RM-recorder; a second family runs the real adaptive update "
         "against a by-hand re-execution. The loop's only state is (stage, step mod k, buffer cursor), all of whose values are reached within the bound."),
   note="trusts h5py for reading frames back; scripted family replaces TDGLSolver.update only; time steps are powers of two (exact sums); run lengths beyond the bound rest on the small-state argument"),
 "C10": dict(
   engine="mc-core", category="model_checking", design_ref="DESIGN.md 3/C10",
   technique="explicit-state BFS to fixpoint over set_link_exponents histories (state = all mutable operator fields) + exhaustive scripted A(t) sequences through the real update",
   text=("Per (mesh, pinned-site set) the history space of MeshOperators.set_link_exponents over a 7-letter alphabet of potentials (zero, repeats as new objects, 5e-6 relative increments, "
         "wrapping phases, seeded per-edge) is explored breadth-first to a fixpoint with every mutable field in the state hash, and all histories up to depth 3/4 are run again without de-duplication; "
         "after every event both covariant operators are compared entrywise with a fresh rebuild for the latest potential. At solver level every script of per-step field increments of length 5/6 "
         "(and 3/4 with screening) is driven through the real TDGLSolver.update and the Laplacian actually handed to solve_for_psi_squared is compared with a rebuild."),
   note="differential oracle: the rebuild uses the library's own first-call builder (absolute correctness of the builders is C03/C04); potentials outside the alphabet rest on the affine dependence of each entry on one link variable"),
 "C15": dict(
   engine="mc-core", category="fault_enumeration", design_ref="DESIGN.md 3/C15, Appendix A",
   technique="exhaustive fault-point enumeration (every update call, writer call and HDF5 write op) on the real run loop and data handler, compared with the recorder specification truncated at the stop",
   text=("Every point at which a bounded run can stop is taken in turn: each update call of both stages, each frame-writer call and (after a dry run that counts them) each HDF5 write operation inside the writer, "
         "for an injected exception and for KeyboardInterrupt with pause off / pause+'n' / pause+'y', crossed with output path shapes and all 16 subsets of pre-existing files. After each execution the harness audits open HDF5 handles, "
         "the sandbox and private temp directory, pre-existing files (bytes and mtime), the frames in the output (complete, labelled, timed and filled as RM-recorder demands before the stop) and the usability of the returned partial solution."),
   note="update replaced by the scripted environment; HDF5 write ops = create_group/__setitem__/attrs.__setitem__/Dataset.__setitem__/flush; resume ('y') checked for cleanliness only; extension-less or unwritable output paths are outside the alphabet (non-terminating path search, recorded in DESIGN.md)"),
 "C12": dict(
   engine="mc-core", category="model_checking", design_ref="DESIGN.md 3/C12",
   technique="deviation-bounded exploration of environment answers (refusal counts, |psi|^2 changes) through the real update, against a reference model of the documented time-step rule and retry loop",
   text=("The real TDGLSolver.update is called step by step with solve_for_psi_squared owned by the environment, so that the number of refusals and the |psi|^2 change of every step are scripted inputs; "
         "for every setting in the alphabet (dt_init/dt_max, window, multiplier, max retries, adaptive on/off) all scripts with at most 1 (quick) / 2 (thorough) deviations from the default answer are executed and "
         "the time step of every attempt, the returned and recorded dt, the bounds, and the exact point at which RuntimeError is raised are compared with RM-adaptive. A second family runs the unpatched solver "
         "under drives that cause genuine refusals and checks every recorded dt against the rule using delta computed from the recorded frames."),
   note="the environment replaces solve_for_psi_squared on the instance only; delta is computed from the arrays the environment handed out; scripts with more deviations rest on the rule depending only on (proposal, window contents)"),
 "C11": dict(
   engine="mc-core", category="model_checking", design_ref="DESIGN.md 3/C11",
   technique="exhaustive product of recording configurations and of split points, differential bitwise comparison of equally-labelled frames of real runs",
   text=("For each physics input every recording configuration (6 save intervals x temp/file output x probes on/off x 3 progress modes) is run with the real solver and each frame is compared bitwise with the "
         "frame of the same step label in a reference configuration (equality is transitive, so all pairs are decided); for every split point of a fixed-step run the run is stopped, resumed from its returned "
         "(or reloaded) solution, and each resumed frame j is compared bitwise with frame N1+j of the uninterrupted run, with and without screening."),
   note="bitwise comparison through h5py; memory-only runs expose only the final state; resume part restricted to time-independent drives and fixed dt as the statement requires; physics inputs outside the alphabet are not covered"),
 "C01": dict(
   engine="mc-core", category="model_checking", design_ref="DESIGN.md 3/C01",
   technique="state invariant (per-cell discrete continuity from raw mesh arrays + independent SI unit model) evaluated on every recorded frame of an exhaustive product of configurations; exhaustive enumeration of balanced current tuples for acceptance",
   text=("Every run of a finite union of full products (devices with 2, 3, 4 terminals x balanced current assignments incl. non-representable decimals and time-dependent callables x field {0, static, ramp} x adaptive x save interval; "
         "plus screening, three unit systems and seeded starts) is executed end to end and on every recorded frame the net edge current leaving each Voronoi cell, recomputed from the stored mesh arrays, must equal the terminal current "
         "injected through that cell's share of each terminal, recomputed from shapely terminal membership and the SI unit model. All balanced n-tuples over {-3..3} (and tenths/thirds) must be accepted by the solver."),
   note="geometries outside the zoo and current values outside the alphabet are not explored (the invariant is linear in the currents); step 0 of unseeded biased runs is a recorded known finding"),
 "C06": dict(
   engine="mc-core", category="model_checking", design_ref="DESIGN.md 3/C06",
   technique="state invariants on every recorded step of an exhaustive configuration product: exact pinning on independently computed terminal sites, differential run without terminals, and re-derivation of every free site's update by an independent reference step",
   text=("For every (device, terminal value in {0, None, 1, 0.5, 0.6+0.8j, 1e-3}, drive, screening) the real solver is run with save_every=1; at every recorded step psi on the terminal sites (recomputed with shapely) must equal the configured value "
         "(bitwise for 0), every other site's new psi must be reproduced from the previous recorded state by RM-step (explicit neighbour sums, extended precision), and with the value unset the frames must be bitwise those of the same mesh without terminals."),
   note="free-evolution clause skipped for screening runs (per-iteration link variables are not recorded); uses the stored dimensionless vector potential; devices outside the zoo not covered"),
 "C17": dict(
   engine="mc-core", category="model_checking", design_ref="DESIGN.md 3/C17",
   technique="absolute state invariant (psi=1, mu=0, J=0) evaluated on every recorded step of an exhaustive product of undriven configurations, with an oracle-side stability classification",
   text=("Every (mesh, gamma, u, adaptive, dt_max, screening) tuple of the product is run undriven to t=5 with terminals unpinned and unbiased; on every recorded step |psi-1|, |mu|, |Js|, |Jn|, |A_induced| must stay below 1e-9 "
         "(observed: bitwise 0 or 3e-16), and with adaptivity on the recorded dt must reach dt_max and stay there. The oracle computes the explicit-Euler number S from the raw mesh; departures at S <= 2 are violations, "
         "departures at S > 2 and gamma <= 1 are the recorded known finding."),
   note="meshes outside the zoo and (gamma,u) outside the 5-point alphabet are not explored; a mesh whose singular mu Laplacian is flagged 'exactly singular' by SuperLU is recorded as unusable fixture"),
 "C13": dict(
   engine="mc-core", category="model_checking", design_ref="DESIGN.md 3/C13",
   technique="exhaustive shape/pattern enumeration of the kernel against a direct double sum; every screening iteration of every step of an exhaustive configuration product re-derived by an independent SI computation",
   text=("The accelerated kernel is compared with an extended-precision direct double sum on every (n<=6 sites, m<=5 points) shape x current/area/distance pattern. In the run family every call of the documented "
         "get_induced_vector_potential (every screening iteration of every step, all devices x fields x tolerances x (alpha,beta) x iteration caps, three unit systems) is intercepted: the returned iterate and error are "
         "recomputed from the argument currents with an independent SI model (mu0/4pi, Voronoi areas, re-implemented site averaging); a step is returned only if its last error is below the tolerance, otherwise RuntimeError "
         "and no frame; the stored potential must reproduce the sum from the stored currents within 5x the tolerance; screening off gives an identically zero potential."),
   note="instance-level interception of a documented method; Polyak's update rule (alpha, beta) is taken from the documentation; devices outside the zoo not covered"),
 "C04": dict(
   engine="mc-core", category="model_checking", design_ref="DESIGN.md 3/C04",
   technique="exhaustive product of (mesh, A, chi, psi, pinned) for operator covariance identities + paired whole runs under constant gauge shifts compared at every recorded step",
   text=("Operator level: for every mesh x vector potential x gauge function chi x pinned set the covariant gradient and Laplacian built for A + grad chi must equal the conjugated operators for A entrywise (1e-12), and the "
         "edge supercurrent of psi e^{i chi} must be unchanged for 4 psi patterns. Run level: each problem is run with A = B/2(-(y-y0), x-x0) for non-trivial (x0,y0), started from the gauge-transformed initial state through seed_solution, "
         "and every recorded step is compared with the unshifted run on |psi|, J_s, J_n, mu-<mu> and psi up to the gauge and a global phase (1e-8; observed 3e-11)."),
   note="entries of the operators are affine in one link variable each, so three distinct phases per edge decide all A (argument, DESIGN 3/C03); non-zero pinned terminal_psi excluded; gauge functions outside the alphabet not explored"),
 "C08": dict(
   engine="mc-core", category="model_checking", design_ref="DESIGN.md 3/C08",
   technique="exhaustive pairs of unit-system restatements of each problem compared at every recorded step, plus an absolute per-triangle flux identity over all triangles, units and fields",
   text=("Each problem (device x drive x screening) is stated in (um,mT,uA), (nm,uT,nA), (mm,T,mA) with the same dimensionless mesh and every recorded step of the restatements is compared with the reference "
         "(dimensionless fields 1e-8; Solution.current_density in A/m between systems and against the SI unit model 1e-9). For every triangle of every mesh, every (length, field) unit pair and 4 field values the gauge phase "
         "around the triangle must equal 2 pi flux / Phi0 (1e-9; observed 3e-15), also through the time-dependent update path."),
   note="same Mesh object shared by the restatements; SI constants from scipy.constants; unit names outside {um,nm,mm}x{mT,uT,T}x{uA,nA,mA} not explored"),
 "C16": dict(
   engine="mc-core", category="model_checking", design_ref="DESIGN.md 3/C16",
   technique="exhaustive enumeration of expression trees (programs) up to a size bound, each executed on the real Parameter classes and compared with a recursive reference evaluator",
   text=("Every expression tree with <= 2 operators (quick: 9.8e3; thorough: all trees of depth <= 3 with <= 3 operators, 4.3e5) over {+,-,*,/,**} and leaves {2-D, 3-D, time-dependent 2-D/3-D parameters, int, float}, plus all 1-/2-operator trees over "
         "closure-distinguished leaves, is built through the overloaded operators and checked against RM-param: value at scalar and array arguments with and without t (bitwise), at a sequence of times on the same object (caches), "
         "time_dependent flag, equality of a rebuilt copy and inequality of every single-node mutation, cache clearing, pickle round trip; ill-typed trees must fail in both. Field expressions over ConstantField/LinearRamp/numbers are handed to "
         "tdgl.solve and must give frames bitwise equal to a hand-written plain Parameter."),
   note="leaf functions fixed (values in [0.5,3]); depth-3 chains use 3 representative outermost leaves; equality of closure-distinguished leaves is not decided (library compares bytecode and kwargs)"),
 "C14": dict(
   engine="mc-core", category="exploration", design_ref="DESIGN.md 3/C14",
   technique="exhaustive products of object compositions, option-field value classes, expression trees and storage routes, each round-tripped through the real (de)serialisers and compared with a strict structural comparer plus behavioural probes",
   text=("All 8 device compositions x mesh present/absent x save_mesh x 4 routes (path, group, pickle, cloudpickle); full vs compressed vs recomputed meshes; every SolverOptions field at default / non-default / None attached to a stored run; "
         "every expression tree with <= 1 (quick) / <= 2 (thorough) operators through pickle and through Solution.to_hdf5/from_hdf5; 4-6 physics inputs x {on disk, memory only} with every recorded step, the dynamics and the reloaded callables compared. "
         "Comparison is strict (bitwise arrays, None only equal to None, polygons by name) and includes the library's own == and behaviour (terminal_info, contains_points lattice, parameter values and flags)."),
   note="gpu / umfpack / pardiso / cupy option values cannot be validated in this sandbox; Solution.to_hdf5(save_mesh=False) files are not self-contained and are outside the alphabet"),
 "C18": dict(
   engine="mc-core", category="exploration", design_ref="DESIGN.md 3/C18",
   technique="exhaustive enumeration of geometry programs (constructions, pairs and chains of set operations, transforms) checked point-wise on a fixed probe lattice by an independent point-in-polygon oracle",
   text=("Every shape x input form/orientation; every ordered pair of shapes x {union, intersection, difference, +, -, *} x operand form; every chain of three shapes x pairs of operations; every rotation (7 angles x 4 origins), translation and "
         "scale/reflection (25 factor pairs) in place and not; device membership and copy/scale/rotate/translate. After each program: vertices closed and counter-clockwise, membership of the result equals the Boolean combination of operand memberships "
         "at every probe (even-odd ray casting, probes within 1e-6 of an outline removed), raising only when shapely's result is empty/multi-part/holed, area laws to 1e-9, points map with the shape, originals byte-identical and unaliased."),
   note="shapes limited to the primitive alphabet; probe lattice fixed (41x41, irrational offset); degenerate slivers of exactly empty results (area < 1e-9) are not decided"),
 "C02": dict(
   engine="mc-core", category="exploration", design_ref="DESIGN.md 3/C02",
   technique="exhaustive finite grid over the per-site input space of the documented update solver, against an extended-precision reference with a three-zone refusal rule, plus all real calls recorded inside driven runs",
   text=("For each (gamma, u, dt) the whole grid |psi| x arg psi x mu x epsilon x Laplacian action (4.5e3 points per call family, 6.7e5 in quick, 5e6 in thorough incl. |psi| down to 1e-160 and dt up to 10) is classified by the reference discriminant: "
         "all clearly solvable points are submitted as one batch and must be answered with the '+' root (vs the longdouble root), real, non-negative, satisfying psi' + z|psi'|^2 = w and |psi'|^2 = x to rounding; every clearly unsolvable point is submitted "
         "alone and embedded among solvable points and must be refused. Every call made inside adaptive driven runs (hundreds, most of them refusals) is checked by the same oracle, and so is every step (adaptive_euler_step: the answer must solve the equation for the dt it reports) and every update as a whole "
         "(from (psi^n, mu^n) with the link variables it ended with), with and without screening iterations. gamma ranges over {0, 1e-4, 0.1, 1, 10, 100, 1e4 | + 1e3, 1e6}."),
   note="values between grid points are not explored; overflow excluded by construction; points whose discriminant is within 1e-9 of the magnitude of its own terms (4|c| + 1 + 4 s^2 formed from the terms of w) accept either answer"),
 "C03": dict(
   engine="mc-core", category="exploration", design_ref="DESIGN.md 3/C03",
   technique="exhaustive product of (mesh, cell-area pattern, dual-length pattern, vector potential) on which matrix identities (covering all fields by linearity) and entrywise agreement with explicit neighbour sums are evaluated",
   text=("For every mesh of the family (zoo, smoothed, hex lattices, sheared, seeded Delaunay, annuli) x 3 area patterns x 3 dual-length patterns x 6 vector potentials: L = D G, a^T D = 0, a^T B = l^T, diag(a) L symmetric, negative semi-definite "
         "(dense eigen-decomposition) with exactly one constant null vector per connected component, diag(a) L_A Hermitian, G exact on {1, x, y}; every operator is also compared entrywise with explicit neighbour sums from the raw arrays (1e-12; observed 6e-16)."),
   note="matrix identities cover all site/edge fields by linearity; 'any vector potential' rests on the affine dependence of each entry on one link variable (three distinct phases per edge suffice, five are used); triangulations outside the family not explored"),
 "C20": dict(
   engine="mc-core", category="exploration", design_ref="DESIGN.md 3/C20",
   technique="basis enumeration (complete by linearity) of sheet currents x exhaustive evaluation-point shapes, unit systems and call forms, against direct Biot-Savart / Coulomb sums in SI; loop closed form vs quadrature; conversion round trips",
   text=("biot_savart_2d is evaluated for a unit sheet current at every site in x and in y (a basis) plus superpositions, for 8 evaluation-point shapes (single point as list/array, (m,2)+scalar z, below the film, far field), 9 unit pairs, scalar and vector forms, "
         "against longdouble SI sums (1e-9; observed 1e-15). Solution.field_at_position / vector_potential_at_position are checked on real solutions whose site currents are replaced by basis and superposed currents: SI sums, scalar form = z component, "
         "sum = parts, additivity, applied part, with/without units, every positional form. The closed-form loop potential is compared with numerical quadrature at 108 positions incl. the axis, in-plane and far field; H<->B conversions for 4 unit pairs x 3 input forms x registry given/not given must round trip and equal B/mu0."),
   note="points in the film plane and loop positions within 1e-2 R of the axis (other than the axis) are outside the alphabet; current distributions other than the basis rest on linearity (spot-checked by superpositions)"),
 "C07": dict(
   engine="mc-core", category="exploration", design_ref="DESIGN.md 3/C07",
   technique="exhaustive product of geometries and mesh settings; every triangle, edge and site of every generated mesh checked against shapely and against an independent clipped-Voronoi construction under oracle-side Delaunay/encroachment guards",
   text=("For every (film, holes, terminals, max_edge_length, min_points, smoothing, xi) of the product the real mesher is run and: signed triangle areas are positive and sum to the domain area (1e-9), centroids lie in the domain, the edge list is exactly the set of triangle sides, "
         "boundary edges/sites are those with incidence 1, lie on the outline and add up to the perimeter, V-E+T = 1-holes, edge vectors/lengths/centres match the site pairs; for every site/edge whose incident triangles are Delaunay with circumcentres inside the domain "
         "(98% of sites) the cell area / dual length equals the clipped Voronoi cell area / face length computed by half-plane clipping with shapely (1e-9; observed 6e-13); terminal lengths match the covered outline to within two boundary edges."),
   note="geometries limited to the primitive alphabet; meshes the library itself refuses ('Malformed Voronoi cell') are counted as refused; non-Delaunay regions (heavy smoothing) are outside the statement and only counted"),
 "C19": dict(
   engine="mc-core", category="fault_enumeration", design_ref="DESIGN.md 3/C19",
   technique="exhaustive enumeration of ill-posed input classes x devices x defect magnitudes x output destinations x validator seeds, with a file-system / handle audit after each rejection and a positive control per class",
   text=("Every variant of the classes (unbalanced constant and callable currents, unknown terminal, epsilon > 1 in 4 forms, NaN currents, an imbalance that only the thermalisation window reaches, each SolverOptions rule incl. dt_init <= 0 / NaN and a save_every that is not a positive integer (per-case time limit: the broken behaviour is an endless run), empty terminals incl. one that holds a single boundary vertex, foreign seed solutions in 5 forms and seeds on another mesh of an equal device, vector potentials of wrong shape, invalid polygons, "
         "invalid device definitions) is instantiated on each device, at defect magnitudes 1, 1e-3 and 1e-6 where a magnitude exists, with and without an explicit (nested) output path and for each seed of the current validator's random times; "
         "an exception must be raised and the recursive snapshot of the sandbox and of the private temp directory must be unchanged with no HDF5 handle open. Repaired inputs (controls, incl. rounding-level imbalance 0.1+0.2-0.3) must be accepted."),
   note="numpy.random.default_rng() is seeded by the harness inside the worker; imbalances confined to windows narrower than T/20 are outside the classes; negative solve / skip times are accepted (a one-frame run) and are informational only; a time-dependent epsilon is checked at t = 0 only"),
 "C09": dict(
   engine="mc-core", category="model_checking", design_ref="DESIGN.md 3/C09, 2.2 (E5)",
   technique="stateless exploration of all thread interleavings (preemption-bounded, CHESS style) of every prange kernel body on its Python source under a controlled scheduler, with a pairwise independence (conflict-freedom) check of loop iterations; plus an exhaustive process / thread-count sweep of whole runs compared by digest, plus exhaustive depth-bounded enumeration of operation histories inside one process (fresh process per history) with a differential digest oracle",
   text=("Kernel level: for each of the 8 numba prange kernels the function numba compiled (.py_func) is re-created with substituted globals (prange -> per-virtual-thread iteration slice, np.empty/zeros -> one shared sentinel-filled buffer, array arguments -> proxies whose element accesses are scheduling points) "
         "and every schedule of 2-3 virtual threads with at most 1-2 preemptions is executed: each must give bitwise the sequential result, write every element of np.empty buffers, never write an input, and the logged access sets of different iterations must be conflict-free (which makes all interleavings, "
         "beyond the bound too, equivalent); no scalar may be carried across parallel iterations. The compiled kernels are run at every thread count (4 sizes) and must be bitwise thread-count independent and equal to the source up to rounding. "
         "Run level: 9 configurations x fresh processes (PYTHONHASHSEED x output location) x thread counts {1,2,5,16 | 1..16}: sha256 over mesh arrays, every dataset, step/time/dt attributes and per-step records must coincide. "
         "Session level: every history up to depth 2 | 3 over an alphabet of 20 legitimate public-API operations that leave the logical inputs unchanged (other solves on the same device / options / parameter objects, moved and re-meshed copies, "
         "post-processing, save + load, pickling, queries, refused / aborted solves, solvers set up and kept alive, also between setting up and running the reference problem) is executed in its own fresh process; two reference simulations run afterwards "
         "on the objects that lived through the history must give the digests (output files, post-processed fields, the inputs themselves) of the empty history."),
   note="native numba threads cannot be put under a scheduler: the binding of the explored source to the machine code is that it is the very function object numba compiled, plus the compiled-vs-source and thread-count comparisons; hardware vectorisation is constant on one machine"),
}
