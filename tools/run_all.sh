#!/bin/bash
# tools/run_all.sh [tier] [ids...] - run every registered check once; summary line per check
HERE="$(cd "$(dirname "${BASH_SOURCE[0]}")/.." && pwd)"
TIER="${1:-quick}"; shift
IDS="$@"
[ -z "$IDS" ] && IDS=$(/venv/bin/python -c "import json;print(' '.join(c['property_id'] for c in json.load(open('$HERE/MANIFEST.json'))['checks']))")
for id in $IDS; do
  s=$(date +%s)
  out=$($HERE/check $id --tier $TIER 2>&1 | grep -v "WARNING conda\|resource_tracker\|warnings.warn")
  rc=$?
  e=$(date +%s)
  echo "$id rc=$(echo "$out" | grep -c '^VIOLATION')v/$(echo "$out" | grep -c '^KNOWN-FINDING')k/$(echo "$out" | grep -c 'HARNESS-ERROR')h wall=$((e-s))s :: $(echo "$out" | grep "^$id tier" | cut -c1-200)"
done
