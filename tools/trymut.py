#!/venv/bin/python
"""tools/trymut.py <file> <old> <new> <ID>[,<ID>...]  - one hand-made mutation, tried against the given checks.

    tools/trymut.py tdgl/solver/runner.py 'os.remove(self.tmp_path)' 'pass' C15

The first occurrence of <old> in <file> (relative to the repository root) is replaced by <new> (use --nth N for the N-th occurrence) in a scratch worktree
outside /repo and /verif (tools/mutate.sh does the work and removes the worktree). Prints one line per check. Not a check: an aid
for assessing the checks.
"""
import argparse
import os
import subprocess
import sys
import tempfile

ap = argparse.ArgumentParser()
ap.add_argument("file")
ap.add_argument("old")
ap.add_argument("new")
ap.add_argument("checks")
ap.add_argument("--nth", type=int, default=1)
ap.add_argument("--tier", default="quick")
ap.add_argument("--show", default="3")
a = ap.parse_args()
src = open(os.path.join("/repo", a.file)).read()
pos = -1
for _ in range(a.nth):
    pos = src.find(a.old, pos + 1)
    if pos < 0:
        sys.exit(f"pattern not found: {a.old!r}")
new = src[:pos] + a.new + src[pos + len(a.old):]
with tempfile.TemporaryDirectory(prefix="trymut-") as td:
    os.makedirs(os.path.join(td, "a", os.path.dirname(a.file)))
    os.makedirs(os.path.join(td, "b", os.path.dirname(a.file)))
    open(os.path.join(td, "a", a.file), "w").write(src)
    open(os.path.join(td, "b", a.file), "w").write(new)
    p = subprocess.run(["diff", "-u", os.path.join("a", a.file), os.path.join("b", a.file)], cwd=td, capture_output=True, text=True)
    patch = os.path.join(td, "m.diff")
    open(patch, "w").write(p.stdout)
    env = dict(os.environ, TIER=a.tier, SHOW=a.show)
    r = subprocess.run([os.path.join(os.path.dirname(os.path.abspath(__file__)), "mutate.sh"), patch] + a.checks.split(","), env=env, capture_output=True, text=True)
    print(f"## {a.file}: {a.old!r} -> {a.new!r}")
    print(r.stdout.strip())
    if r.returncode not in (0, 1):
        print(r.stderr[-500:])
