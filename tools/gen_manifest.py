#!/venv/bin/python
"""Regenerates MANIFEST.json from the per-check metadata below (kept in one place so the
manifest is always valid).  Usage: tools/gen_manifest.py"""
import json, os, sys
HERE = os.path.dirname(os.path.dirname(os.path.abspath(__file__)))
sys.path.insert(0, HERE)
from tools.manifest_data import CHECKS, NOT_APPLICABLE, NOTES

props = [json.loads(l)["id"] for l in open(os.path.join(HERE, "properties.jsonl"))]
checks = []
for pid in props:
    if pid not in CHECKS:
        continue
    c = CHECKS[pid]
    checks.append({
        "property_id": pid,
        "quick_cmd": f"./check {pid} --tier quick",
        "thorough_cmd": f"./check {pid} --tier thorough",
        "evidence_file": f"/verif/evidence/{pid}.json",
        "replay_cmd_template": f"./check {pid} --replay {{path}}",
        "engine": c["engine"],
        "level_claimed": {"category": c["category"], "text": c["text"], "design_ref": c["design_ref"]},
        "level_note": c["note"],
        "technique": c["technique"],
    })
na = [{"property_id": p, "reason": NOT_APPLICABLE.get(p, "check not yet implemented at this commit (planned, see DESIGN.md section 3)")}
      for p in props if p not in CHECKS]
man = {
    "version": 1,
    "setup_cmd": "/venv/bin/python -c \"import sys; sys.path.insert(0,'/repo'); import tdgl, h5py, numba, shapely\" && chmod +x ./check",
    "hooks": {
        "guard": "TDGL_VERIF",
        "enable": "no hooks are needed: every seam is reached from the harness process (see DESIGN.md 2.3, 2.8)",
        "baseline_off_cmd": "cd /repo && /venv/bin/python -m pytest -ra -q -p no:cacheprovider --timeout=900 --continue-on-collection-errors",
        "source_commits": [],
        "add_only": True,
    },
    "engines": [
        {"name": "mc-core", "path": "/verif/mc/core.py", "serves_properties": sorted(CHECKS),
         "kind_free_text": "hand-written bounded-exhaustive explorers (product, history/BFS, environment-script, fault-point, interleaving) running the real implementation in spawn workers"},
    ],
    "checks": checks,
    "notes": NOTES,
    "not_applicable": na,
}
json.dump(man, open(os.path.join(HERE, "MANIFEST.json"), "w"), indent=1)
print("checks:", [c["property_id"] for c in checks], "not_applicable:", [n["property_id"] for n in na])
