#!/bin/bash
# tools/adopt.sh <out-dir of a sub-agent> <slug> <ID>[ <ID>...] - copy a sub-agent's deliverables to seeded/<slug>, confirm them independently, run the checks
SRC="$1"; SLUG="$2"; shift 2
cd "$(dirname "$0")/.."
D=seeded/$SLUG
mkdir -p $D && cp $SRC/patch.diff $SRC/demo.py $SRC/notes.md $D/ || exit 2
tools/confirm_mutant.sh $D
tools/mutate.sh $D/patch.diff "$@"
