#!/bin/bash
# tools/session_try.sh <patch.diff|-> [tier]  - development aid: run only C09's 'session' family against a scratch worktree with the patch applied
PATCH="$1"; TIER="${2:-quick}"
WT="$(mktemp -d /tmp/mut-XXXXXX)"; rmdir "$WT"
git -C /repo worktree add -q --detach "$WT" HEAD || exit 2
SB="$(mktemp -d /tmp/sesswork-XXXXXX)"
trap 'git -C /repo worktree remove --force "$WT" 2>/dev/null; rm -rf "$WT" "$SB"' EXIT
[ "$PATCH" != "-" ] && { git -C "$WT" apply "$(realpath "$PATCH")" || exit 2; }
cd "$SB"
VERIF_REPO="$WT" PYTHONPATH="$WT:/verif" /venv/bin/python - "$TIER" <<'PY'
import sys, os, json, concurrent.futures as cf
from mc.checks import c09
cases = [c for c in c09.cases(sys.argv[1], 0) if c["fam"] == "session"]
def run(ic):
    i, c = ic
    d = os.path.join(os.getcwd(), f"case{i}"); os.makedirs(d); 
    import subprocess
    r = subprocess.run([sys.executable, "-c", "import sys,json,os; os.chdir(sys.argv[2]); from mc.checks import c09; r=c09.run_session(json.loads(sys.argv[1])); print('RES '+json.dumps([v['sig'] for v in r.violations]))", json.dumps(c), d], capture_output=True, text=True)
    return i, [l for l in r.stdout.splitlines() if l.startswith("RES ")] or r.stderr[-800:]
with cf.ThreadPoolExecutor(8) as ex:
    for i, out in ex.map(run, enumerate(cases)):
        print(i, str(out)[:1200])
PY
