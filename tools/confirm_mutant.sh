#!/bin/bash
# tools/confirm_mutant.sh <seeded/dir>  - independent confirmation of a seeded change in a scratch worktree:
#  demo passes on the unmodified tree, fails with the patch, and the pinned test-suite's passing set does not shrink.
# Writes <dir>/confirm.txt. The worktree is removed afterwards.
D="$(realpath "$1")"
WT="$(mktemp -d /tmp/conf-XXXXXX)"; rmdir "$WT"
git -C /repo worktree add -q --detach "$WT" HEAD || exit 2
trap 'git -C /repo worktree remove --force "$WT" 2>/dev/null; rm -rf "$WT"' EXIT
{
echo "repo HEAD: $(git -C /repo rev-parse --short HEAD)  date: $(date -u +%FT%TZ)"
( cd /tmp && TQDM_DISABLE=1 PYTHONPATH="$WT" timeout 900 /venv/bin/python "$D/demo.py" >/dev/null 2>&1 ); echo "demo on unmodified tree: exit $?"
git -C "$WT" apply "$D/patch.diff" && echo "patch applies: yes" || echo "patch applies: NO"
( cd /tmp && TQDM_DISABLE=1 PYTHONPATH="$WT" timeout 900 /venv/bin/python "$D/demo.py" >/dev/null 2>&1 ); echo "demo with patch: exit $?"
BASELINE_XDIST=${BASELINE_XDIST:-4} /verif/tools/baseline.sh "$WT" | tail -8
} > "$D/confirm.txt" 2>&1
cat "$D/confirm.txt"
