#!/venv/bin/python
"""tools/meta.py <slug> <property> <needs_to_manifest> <detected_by json> [what]  - write seeded/<slug>/meta.json (what defaults to the notes' first paragraph)"""
import json, sys, os
slug, prop, needs, det = sys.argv[1:5]
d = os.path.join(os.path.dirname(os.path.abspath(__file__)), "..", "seeded", slug)
what = sys.argv[5] if len(sys.argv) > 5 else ""
meta = {"id": slug, "breaks_property": prop, "what": what, "needs_to_manifest": needs, "detected_by": json.loads(det),
        "ran": [f"tools/confirm_mutant.sh seeded/{slug}  (demo exits 0 unpatched, non-zero patched, baseline missing=0: see confirm.txt)", f"tools/mutate.sh seeded/{slug}/patch.diff {prop} ..."],
        "source": "independent sub-agent (wave 6) given only the property text, the list of ideas already taken and a scratch worktree"}
json.dump(meta, open(os.path.join(d, "meta.json"), "w"), indent=1)
print("wrote", os.path.join(d, "meta.json"))
