#!/bin/bash
# tools/mutate.sh <patch.diff> <ID> [<ID> ...]   (env TIER=quick|thorough, SEEDS="0 1")
# Applies a patch to a scratch worktree of /repo (outside /repo and /verif), runs the given checks
# against it via VERIF_REPO, and removes the worktree. Evidence and replay files of these runs go to a scratch directory.
PATCH="$(realpath "$1")"; shift
WT="$(mktemp -d /tmp/mut-XXXXXX)"
rmdir "$WT"
git -C /repo worktree add -q --detach "$WT" HEAD || exit 2
export VERIF_OUT="$(mktemp -d /tmp/mutout-XXXXXX)"   # evidence and replays of these runs go to scratch, not to /verif
cleanup() { git -C /repo worktree remove --force "$WT" 2>/dev/null; rm -rf "$WT" "$VERIF_OUT"; }
trap cleanup EXIT
git -C "$WT" apply "$PATCH" || { echo "patch does not apply"; exit 2; }
rc_all=0
for id in "$@"; do
  for seed in ${SEEDS:-0}; do
    out=$(VERIF_REPO="$WT" VERIF_SEED=$seed /verif/check "$id" --tier "${TIER:-quick}" 2>&1 | grep -v "WARNING conda")
    rc=$?
    nv=$(echo "$out" | grep -c '^VIOLATION')
    echo "== $id seed=$seed: VIOLATION lines=$nv ; $(echo "$out" | grep -E "^$id tier" )"
    echo "$out" | grep -E '^  signature|HARNESS' | head -${SHOW:-4}
    [ "$nv" -gt 0 ] || rc_all=1
  done
done
exit $rc_all
