#!/usr/bin/env python3
"""tools/wave_prompts.py <dir> <ID>... - write one sub-agent prompt per property to <dir>/<ID>.prompt (property text, scratch worktree path,
deliverables, and the ideas already used for that property so that the new change is different in kind)."""
import json,glob,os,sys
root=sys.argv[1]; ids=sys.argv[2:]
here=os.path.join(os.path.dirname(os.path.abspath(__file__)),"..")
props={json.loads(l)['id']:json.loads(l) for l in open(os.path.join(here,'properties.jsonl'))}
taken={}
for d in sorted(glob.glob(os.path.join(here,'seeded/*/'))):
    if not os.path.exists(d+'meta.json'): continue
    m=json.load(open(d+'meta.json')); pid=m.get('breaks_property') or m.get('property')
    taken.setdefault(pid,[]).append(m.get('what','')[:260])
for pid in ids:
    p=props[pid]; wt=f"{root}/{pid}-wt"; out=f"{root}/{pid}-out"
    t="\n".join(f"  - {w}" for w in taken.get(pid,[]))
    prompt=f"""You are helping to evaluate a verification effort for the open-source Python package py-tdgl (loganbvh/py-tdgl: finite-volume solver for the 2D generalized time-dependent Ginzburg-Landau equation). Your job is to play the part of a developer who introduces a realistic, subtle regression.

Your private scratch git worktree of the package is at {wt} (already created; work ONLY there; never touch /repo or /verif, and do not read anything under /verif). Import the worktree's code with PYTHONPATH={wt} /venv/bin/python (the interpreter /venv/bin/python has all dependencies; without PYTHONPATH it would import /repo instead). No network is available.

The semantic property you must break:

  id: {pid}
  title: {p['title']}
  statement: {p['statement']}
  scope: {p['quantifier']['text']}

Produce ONE change to the package source (under {wt}/tdgl, not the tests) that:
 1. breaks the property above for some inputs / histories, while the package still imports and the existing test suite still passes exactly as before. Check that yourself with:
      cd {wt} && PYTHONPATH={wt} /venv/bin/python -m pytest -q -p no:cacheprovider --timeout=900 -n 3 2>&1 | tail -5
    (5-10 minutes; 64 failures and 15 errors are already there on the unmodified tree for environment reasons, 705 tests pass - the set of passing tests must not shrink, so compare the failing test names with a run on the unmodified code if the counts differ);
 2. looks like something a maintainer could plausibly write (a refactoring, an optimisation, a cache, a tidy-up, a 'robustness' tweak) - not sabotage, no dead giveaways in comments;
 3. needs something SPECIFIC to manifest: a particular multi-step sequence of operations on one object or in one process, an unusual-but-legitimate input (shape, dtype, sign, magnitude, ordering, naming), a fault or interruption at a particular point, a particular combination of options, or two cooperating sites that each look fine alone. Ordinary use (the quick-start style run) must NOT expose it at once.
 4. is different in kind from these ideas, which were already used for this property:
{t}

Deliverables, written to {out}/ (create it):
  - patch.diff : `git -C {wt} diff` of your change (source only; it must apply cleanly to a clean checkout with `git apply`)
  - demo.py    : a small self-contained program (runs in under 2 minutes, uses only the public behaviour of the package, no pytest needed) that exits 0 on the unmodified tree and exits non-zero (assert / sys.exit(1)) with your patch applied. It is run as: cd /tmp && PYTHONPATH=<tree> /venv/bin/python demo.py . Keep it quiet; write any files under a tempfile.TemporaryDirectory.
  - notes.md   : what the change is, why it breaks the property, exactly what is needed for it to manifest, and the tail of your test-suite run.
Verify both directions of demo.py yourself (with `git -C {wt} apply -R {out}/patch.diff` and `git -C {wt} apply {out}/patch.diff`; do NOT use git stash: the stash is shared between all worktrees of the repository and other people are working in sibling worktrees). If you notice that the UNMODIFIED tree already violates the property for some input, say so in notes.md under a heading 'Observed on the unmodified tree' with a minimal reproducer - but still deliver a change of your own.

Practical notes: every shell command prints a harmless first line 'WARNING conda...'. Meshes whose points are exactly cocircular (perfectly symmetric boxes at some edge lengths) can raise 'Malformed Voronoi cell' - use slightly asymmetric geometries in the demo. A ~100-site mesh and ~10-50 steps keep runs under a second; the first screened run compiles a numba kernel (~5 s). Several post-processing helpers are broken in this environment for unrelated reasons (np.trapz / 2-D np.cross removed in numpy 2: polygon_fluxoid, current_through_path; Polygon.buffer) - do not rely on them. The machine is shared with other jobs: do not use more than 3 pytest workers, and run the full suite at most twice. Leave the worktree in place with your change applied when you finish; finish with a 5-line summary."""
    open(f"{root}/{pid}.prompt","w").write(prompt)
    print(pid, len(taken.get(pid,[])), "ideas taken")
