#!/venv/bin/python
"""tools/covmap.py <covdir> <out.json>: combine the per-worker coverage files written with VERIF_COVERAGE=<covdir>/<ID>
into {file: {line: [check ids]}} (library lines each quick check executes). Used by tools/mutscan.py --covmap."""
import glob
import json
import os
import sys

import coverage

root, out = sys.argv[1], sys.argv[2]
m = {}
for d in sorted(glob.glob(os.path.join(root, "C??"))):
    cid = os.path.basename(d)
    for f in glob.glob(os.path.join(d, "cov.*")):
        data = coverage.CoverageData(basename=f)
        data.read()
        for fn in data.measured_files():
            rel = fn[fn.index("/tdgl/") + 1 :]
            for ln in data.lines(fn) or []:
                m.setdefault(rel, {}).setdefault(str(ln), set()).add(cid)
json.dump({f: {ln: sorted(c) for ln, c in v.items()} for f, v in m.items()}, open(out, "w"))
print({f: len(v) for f, v in sorted(m.items())})
