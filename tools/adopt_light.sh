#!/bin/bash
# tools/adopt_light.sh <out-dir of a sub-agent> <slug> <ID>[ <ID>...] - as adopt.sh, but the test suite is not run again (the machine is shared with
# other sub-agents running it): the demonstration is confirmed both ways in a scratch worktree and the sub-agent's own suite result is quoted.
SRC="$1"; SLUG="$2"; shift 2
cd "$(dirname "$0")/.."
D="$(pwd)/seeded/$SLUG"
mkdir -p $D && cp $SRC/patch.diff $SRC/demo.py $SRC/notes.md $D/ || exit 2
WT="$(mktemp -d /tmp/conf-XXXXXX)"; rmdir "$WT"
git -C /repo worktree add -q --detach "$WT" HEAD || exit 2
{
echo "repo HEAD: $(git -C /repo rev-parse --short HEAD)  date: $(date -u +%FT%TZ)"
( cd /tmp && TQDM_DISABLE=1 PYTHONPATH="$WT" timeout 900 /venv/bin/python "$(realpath $D)/demo.py" >/dev/null 2>&1 ); echo "demo on unmodified tree: exit $?"
git -C "$WT" apply "$D/patch.diff" && echo "patch applies: yes" || echo "patch applies: NO"
( cd /tmp && TQDM_DISABLE=1 PYTHONPATH="$WT" timeout 900 /venv/bin/python "$(realpath $D)/demo.py" >/dev/null 2>&1 ); echo "demo with patch: exit $?"
echo "test suite: not re-run here; the sub-agent's own full run on the patched tree: $(grep -h -o '[0-9]* failed, [0-9]* passed, [0-9]* errors[^\`]*' $D/notes.md | tail -1)"
} > "$D/confirm.txt" 2>&1
git -C /repo worktree remove --force "$WT" 2>/dev/null; rm -rf "$WT"
cat "$D/confirm.txt"
tools/mutate.sh $D/patch.diff "$@"
