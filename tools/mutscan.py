#!/venv/bin/python
"""tools/mutscan.py - mechanical mutation scan of the checks (an assessment of the machinery, not a check).

    tools/mutscan.py --file tdgl/solver/solver.py [--lines 380-440] --checks C02,C12 [--jobs 6] [--stride 1] [--out FILE]

Enumerates small token-level mutations of one library file (operator swaps, constants, min/max, True/False, dropped
.copy()/.conj()/abs, `not` removal, deleted simple statements), builds each mutant as a scratch copy of the package
outside /repo and /verif, and runs the given quick checks against it (VERIF_REPO), stopping at the first check that
reports a VIOLATION. Survivors are then run against the repository's own test files given with --tests; what survives
both is listed for manual triage (equivalent mutant, outside every property, or a gap in a check).
Results are appended to the --out JSONL file; scratch copies are removed after each mutant.
"""
import argparse
import io
import json
import os
import re
import shutil
import subprocess
import sys
import tempfile
import tokenize
from pathlib import Path

REPO = Path(os.environ.get("VERIF_REPO_SRC", "/repo"))
VERIF = Path(__file__).resolve().parent.parent

OPSWAP = {"+": "-", "-": "+", "*": "/", "/": "*", "<": "<=", "<=": "<", ">": ">=", ">=": ">", "==": "!=", "!=": "==",
          "+=": "-=", "-=": "+=", "*=": "/=", "/=": "*=", "//": "/", "**": "*"}
NAMESWAP = {"and": "or", "or": "and", "True": "False", "False": "True", "min": "max", "max": "min", "minimum": "maximum", "maximum": "minimum",
            "real": "imag", "imag": "real", "any": "all", "all": "any", "zeros": "ones", "ones": "zeros", "empty": "zeros",
            "zeros_like": "ones_like", "empty_like": "zeros_like", "argmin": "argmax", "cos": "sin", "sin": "cos", "floor": "ceil", "ceil": "floor"}
LINE_REWRITES = [(r"\.copy\(\)", ""), (r"\.conj\(\)", ""), (r"\.conjugate\(\)", ""), (r"\bnp\.abs\(", "("), (r"\babs\(", "("), (r"\bnot ", ""),
                 (r"\bis not None\b", "is None"), (r"\bis None\b", "is not None"), (r"\.T\b", ""), (r"\bsorted\(", "list("), (r"\[::-1\]", "")]


def mutants(src, lo, hi):
    """yield (line_no, description, new_source)"""
    lines = src.splitlines(keepends=True)
    toks = list(tokenize.generate_tokens(io.StringIO(src).readline))
    depth_doc = set()
    for i, t in enumerate(toks):
        if t.type == tokenize.STRING and (i == 0 or toks[i - 1].type in (tokenize.NEWLINE, tokenize.INDENT, tokenize.NL, tokenize.DEDENT)):
            for ln in range(t.start[0], t.end[0] + 1):
                depth_doc.add(ln)

    def replace(tok, new):
        (r, c0), (_, c1) = tok.start, tok.end
        ls = list(lines)
        ls[r - 1] = ls[r - 1][:c0] + new + ls[r - 1][c1:]
        return "".join(ls)

    seen = set()
    for i, t in enumerate(toks):
        r = t.start[0]
        if not (lo <= r <= hi) or r > len(lines) or r in depth_doc or t.start[0] != t.end[0]:
            continue
        line = lines[r - 1]
        if line.lstrip().startswith(("import ", "from ", "@", "raise ", "logger", "warnings", "assert")):
            continue
        new = None
        if t.type == tokenize.OP and t.string in OPSWAP:
            prev = toks[i - 1]
            unary = t.string in "+-" and (prev.type == tokenize.OP and prev.string not in (")", "]", "}"))
            if unary and t.string == "-":
                new, desc = "+", "drop unary minus"
            elif not unary:
                new, desc = OPSWAP[t.string], f"{t.string} -> {OPSWAP[t.string]}"
            if t.string == "*" and prev.type == tokenize.OP and prev.string in ("(", ","):
                new = None  # argument unpacking
            if t.string == "**" and prev.type == tokenize.OP and prev.string in ("(", ","):
                new = None
        elif t.type == tokenize.NAME and t.string in NAMESWAP:
            new, desc = NAMESWAP[t.string], f"{t.string} -> {NAMESWAP[t.string]}"
        elif t.type == tokenize.NUMBER:
            try:
                v = complex(t.string) if t.string.endswith("j") else float(t.string)
            except ValueError:
                v = None
            if v is not None:
                if t.string in ("0", "0.0"):
                    new = "1"
                elif t.string in ("1", "1.0"):
                    new = "2" if toks[i - 1].string in ("[", ":", ",") or toks[i + 1].string in ("]", ":") else "0"
                elif t.string.endswith("j"):
                    new = "-" + t.string
                elif "." in t.string or "e" in t.string.lower():
                    new = repr(float(t.string) * 2)
                else:
                    new = str(int(t.string) + 1)
                desc = f"{t.string} -> {new}"
        if new is not None:
            key = (r, t.start[1], new)
            if key not in seen:
                seen.add(key)
                yield r, f"L{r}:{t.start[1]} {desc}", replace(t, new)
    for r in range(lo, min(hi, len(lines)) + 1):
        if r in depth_doc:
            continue
        line = lines[r - 1]
        st = line.strip()
        if not st or st.startswith("#"):
            continue
        for pat, rep in LINE_REWRITES:
            for m in re.finditer(pat, line):
                if "#" in line[: m.start()]:
                    continue
                nl = line[: m.start()] + rep + line[m.end():]
                ls = list(lines)
                ls[r - 1] = nl
                yield r, f"L{r}:{m.start()} '{m.group(0)}' -> '{rep}'", "".join(ls)
        # statement deletion: a one-line simple statement (assignment, augmented assignment or call) becomes `pass`
        if re.match(r"^[A-Za-z_][\w\.\[\]:, ]*\s*([+\-*/]?=)\s*[^=].*[^\(\[\{,\\]$", st) or re.match(r"^[A-Za-z_][\w\.]*\(.*\)$", st):
            if st.count("(") == st.count(")") and st.count("[") == st.count("]") and not st.endswith(":"):
                ind = line[: len(line) - len(line.lstrip())]
                ls = list(lines)
                ls[r - 1] = ind + "pass\n"
                yield r, f"L{r} delete statement '{st[:60]}'", "".join(ls)


def run_checks(root, checks, jobs, timeout):
    env = dict(os.environ, VERIF_REPO=str(root), VERIF_OUT=str(root / "_out"), PYTHONHASHSEED="0")
    for cid in checks:
        # own session: on a timeout the whole process group (pool workers stuck in a mutant's endless loop) is killed
        proc = subprocess.Popen([str(VERIF / "check"), cid, "--tier", "quick", "--jobs", str(jobs)], env=env, stdout=subprocess.PIPE, stderr=subprocess.PIPE,
                                text=True, start_new_session=True)
        try:
            so, se = proc.communicate(timeout=timeout)
        except subprocess.TimeoutExpired:
            import signal

            try:
                os.killpg(proc.pid, signal.SIGKILL)
            except ProcessLookupError:
                pass
            proc.communicate()
            return cid, "timeout", ""
        p = proc
        out = so + se
        nv = len(re.findall(r"^VIOLATION", out, re.M))
        if nv:
            sig = re.findall(r"^  signature: (.*)$", out, re.M)
            return cid, "violation", (sig[0] if sig else "")[:200]
        if p.returncode != 0:
            tail = [ln for ln in out.strip().splitlines() if "conda" not in ln][-3:]
            return cid, f"exit{p.returncode}", " | ".join(tail)[:300]
    return None, "survived", ""


def run_tests(root, tests, timeout):
    if not tests:
        return "not-run"
    env = dict(os.environ, PYTHONPATH=str(root), TQDM_DISABLE="1", MPLBACKEND="Agg")
    cmd = ["/venv/bin/python", "-m", "pytest", "-q", "-x", "-p", "no:cacheprovider", "--timeout", "900", "-n", "4"] + [str(root / t) for t in tests]
    try:
        p = subprocess.run(cmd, env=env, cwd=str(root), capture_output=True, text=True, timeout=timeout)
    except subprocess.TimeoutExpired:
        return "timeout"
    last = [ln for ln in (p.stdout + p.stderr).strip().splitlines() if ln.strip()][-1:]
    return " ".join(last)[:200]


def main():
    ap = argparse.ArgumentParser()
    ap.add_argument("--file", required=True)
    ap.add_argument("--lines", default="1-100000")
    ap.add_argument("--checks", required=True)
    ap.add_argument("--tests", default="")
    ap.add_argument("--jobs", type=int, default=6)
    ap.add_argument("--stride", type=int, default=1)
    ap.add_argument("--offset", type=int, default=0)
    ap.add_argument("--max", type=int, default=100000)
    ap.add_argument("--timeout", type=int, default=900)
    ap.add_argument("--out", default=None)
    ap.add_argument("--list", action="store_true")
    ap.add_argument("--covmap", default=str(VERIF / "mutscan" / "covmap.json"), help="line -> checks map from tools/covmap.py; mutants on lines no check executes are listed as 'uncovered'")
    ap.add_argument("--maxchecks", type=int, default=6)
    a = ap.parse_args()
    lo, hi = (int(v) for v in a.lines.split("-"))
    src = (REPO / a.file).read_text()
    muts = list(mutants(src, lo, hi))
    muts = muts[a.offset :: a.stride][: a.max]
    print(f"{len(muts)} mutants of {a.file} lines {lo}-{hi}", flush=True)
    if a.list:
        for r, d, _ in muts:
            print(" ", d)
        return
    out = Path(a.out) if a.out else VERIF / "mutscan" / (Path(a.file).stem + f"_{lo}_{hi}.jsonl")
    out.parent.mkdir(parents=True, exist_ok=True)
    done = set()
    if out.exists():
        done = {json.loads(ln)["mutant"] for ln in out.read_text().splitlines() if ln.strip()}
    checks = a.checks.split(",")
    tests = [t for t in a.tests.split(",") if t]
    cov = json.load(open(a.covmap)).get(a.file, {}) if a.covmap and os.path.exists(a.covmap) else None
    cheap = ["C03", "C19", "C02", "C12", "C16", "C04", "C18", "C08", "C14", "C13", "C06", "C17", "C07", "C01", "C05", "C11", "C10", "C20", "C09", "C15"]
    all_checks = checks
    for r, desc, new in muts:
        if desc in done:
            continue
        if cov is not None:
            cl = cov.get(str(r), [])
            if not cl:
                with out.open("a") as fh:
                    fh.write(json.dumps({"file": a.file, "mutant": desc, "line": src.splitlines()[r - 1].strip()[:120], "result": "uncovered"}) + "\n")
                continue
            checks = ([c for c in all_checks if c in cl] + [c for c in cheap if c in cl and c not in all_checks])[: a.maxchecks]
        root = Path(tempfile.mkdtemp(prefix="mutscan-", dir="/tmp"))
        try:
            shutil.copytree(REPO / "tdgl", root / "tdgl", ignore=shutil.ignore_patterns("__pycache__"))
            (root / a.file).write_text(new)
            rec = {"file": a.file, "mutant": desc, "line": src.splitlines()[r - 1].strip()[:120]}
            try:
                compile(new, a.file, "exec")
            except SyntaxError:
                rec.update(result="syntax-error")
                continue
            imp = subprocess.run(["/venv/bin/python", "-c", "import tdgl"], env=dict(os.environ, PYTHONPATH=str(root)), capture_output=True, text=True, timeout=300)
            if imp.returncode != 0:
                rec.update(result="import-error")
            else:
                cid, res, info = run_checks(root, checks, a.jobs, a.timeout)
                rec.update(result=res, by=cid, info=info)
                if res == "survived":
                    rec["tests"] = run_tests(root, tests, 3600)
            with out.open("a") as fh:
                fh.write(json.dumps(rec) + "\n")
            print(f"{rec['result']:>10} {rec.get('by') or '':4} {desc}   [{rec['line'][:70]}] {rec.get('tests', '')}", flush=True)
        finally:
            shutil.rmtree(root, ignore_errors=True)


if __name__ == "__main__":
    main()
