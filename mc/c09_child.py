"""Child process of the C09 process sweep: builds the device from scratch, runs one configuration once
per requested thread count and prints {thread count: sha256 digest} as JSON on the last line."""
from __future__ import annotations

import hashlib
import json
import os
import sys


def digest_file(path, mesh):
    import h5py
    import numpy as np

    h = hashlib.sha256()

    def upd(name, arr):
        a = np.ascontiguousarray(np.asarray(arr))
        h.update(name.encode())
        h.update(str(a.dtype).encode())
        h.update(str(a.shape).encode())
        h.update(a.tobytes())

    em = mesh.edge_mesh
    for nm in ("sites", "elements", "boundary_indices", "areas", "dual_sites"):
        upd("mesh." + nm, getattr(mesh, nm))
    for nm in ("centers", "edges", "boundary_edge_indices", "directions", "edge_lengths", "dual_edge_lengths"):
        upd("edge." + nm, getattr(em, nm))
    with h5py.File(path, "r") as f:
        for key in sorted(f.keys()):
            if isinstance(f[key], h5py.Dataset):
                upd("top." + key, f[key])
        for name in sorted(f["data"].keys(), key=int):
            g = f["data"][name]
            for a in ("step", "time", "dt"):
                upd(f"{name}.attr.{a}", np.asarray(g.attrs[a]))
            for k in sorted(g.keys()):
                if k == "running_state":
                    for c in sorted(g[k].keys()):
                        upd(f"{name}.rs.{c}", g[k][c])
                else:
                    upd(f"{name}.{k}", g[k])
    return h.hexdigest()


def tramp(x, y, z, *, t):
    import numpy as np

    s = 0.2 + 0.8 * t
    return np.stack([-s * y / 2, s * x / 2, np.zeros_like(x)], axis=1)


def eps_t(r, *, t, vectorized=True):
    import numpy as np

    r = np.atleast_2d(r)
    return 1.0 - (0.25 + 0.1 * np.sin(0.9 * t + 0.3)) * np.exp(-((r[:, 0] - 0.8) ** 2 + (r[:, 1] + 0.4) ** 2))


def cur(t):
    return {"source": 1.0 + 0.5 * t, "drain": -1.0 - 0.5 * t}


def run_config(tdgl, zoo, config, outmode, k):
    dev = zoo.device({"hole_terminals": "G2", "four_terminals": "G4"}.get(config, "G1"), memo=False, lam=(0.8 if config in ("screening", "seeded_twice") else 2.0),
                     terminals=(config in ("hole_terminals", "callable_currents", "four_terminals")))
    dt = 2.0**-5
    o = dict(solve_time=6 * dt, dt_init=dt, dt_max=dt, adaptive=False, save_every=2, progress_interval=10**9)
    kw = dict(applied_vector_potential=0.5)
    if config == "screening":
        o.update(include_screening=True, screening_tolerance=1e-3)
    elif config == "adaptive":
        o.update(adaptive=True, dt_init=0.3, dt_max=1.0, adaptive_window=2, adaptive_time_step_multiplier=0.5, solve_time=2.0)
        kw = dict(applied_vector_potential=1.6)
    elif config == "tdep":
        kw = dict(applied_vector_potential=tdgl.Parameter(tramp, time_dependent=True))
    elif config == "callable_currents":
        kw["terminal_currents"] = cur
    elif config == "eps_tdep":
        # a disorder parameter that depends on time (recorded with every frame, the initial one included)
        kw["disorder_epsilon"] = eps_t
    elif config == "four_terminals":
        # non-representable decimals on four terminals: any order dependence of a sum shows in the last bit
        dt = 2.0**-7
        o.update(solve_time=6 * dt, dt_init=dt, dt_max=dt)
        import numpy as np

        # numpy scalars (as produced by any current sweep): builtin sum() is only compensated for exact Python floats
        vals = np.array([0.26, 0.58, -0.10, -0.74])
        kw["terminal_currents"] = dict(zip(("w", "e", "n", "s"), vals))
    elif config == "hole_terminals":
        dt = 2.0**-7
        o.update(solve_time=6 * dt, dt_init=dt, dt_max=dt)
        kw["terminal_currents"] = {"source": 0.4, "drain": -0.4}
    if config == "seeded_twice":
        # a relaxed screened state is used as the seed of two identical runs in the same process (the same Solution object)
        o.update(include_screening=True, screening_tolerance=1e-3)
        os.makedirs(f"st_{k}", exist_ok=True)
        seed = tdgl.solve(dev, tdgl.SolverOptions(output_file=os.path.abspath(f"st_{k}/seed.h5"), **o), applied_vector_potential=0.2)
        ds = []
        for rep in (0, 1):
            sol = tdgl.solve(dev, tdgl.SolverOptions(output_file=os.path.abspath(f"st_{k}/run{rep}.h5"), **o), applied_vector_potential=0.5, seed_solution=seed)
            ds.append(digest_file(sol.path, dev.mesh))
        return "file:" + ds[0] + ("" if ds[0] == ds[1] else "|repeat-differs:" + ds[1])
    if outmode == "temp":
        sol = tdgl.solve(dev, tdgl.SolverOptions(**o), **kw)
        # memory-only: digest what the solution exposes
        import hashlib as hl
        import numpy as np

        h = hl.sha256()
        for nm in ("psi", "mu", "supercurrent", "normal_current", "induced_vector_potential", "epsilon", "applied_vector_potential"):
            h.update(np.ascontiguousarray(getattr(sol.tdgl_data, nm)).tobytes())
        h.update(np.ascontiguousarray(sol.dynamics.dt).tobytes())
        h.update(np.ascontiguousarray(dev.mesh.sites).tobytes())
        h.update(np.ascontiguousarray(dev.mesh.areas).tobytes())
        return "mem:" + h.hexdigest()
    else:
        path = os.path.abspath(f"explicit_{k}.h5") if outmode == "explicit" else f"rel/dir/out_{k}.h5"
        sol = tdgl.solve(dev, tdgl.SolverOptions(output_file=path, **o), **kw)
        return "file:" + digest_file(sol.path, dev.mesh)


def main():
    config, outmode, threads = sys.argv[1], sys.argv[2], [int(x) for x in sys.argv[3].split(",")]
    sys.path.insert(0, os.environ["VERIF_REPO"])
    sys.path.insert(0, os.environ["VERIF_HOME"])
    os.environ["TQDM_DISABLE"] = "1"
    import logging

    logging.disable(logging.CRITICAL)
    import numba
    import tdgl
    from mc import zoo

    res = {}
    prior = os.environ.get("C09_PRIOR")
    if prior:
        # this process has a history: another configuration ran here first (its result is discarded)
        numba.set_num_threads(2)
        os.makedirs("prior", exist_ok=True)
        cwd = os.getcwd()
        os.chdir("prior")
        try:
            run_config(tdgl, zoo, prior, "relative", 2)
        finally:
            os.chdir(cwd)
    for k in threads:
        numba.set_num_threads(k)
        res[str(k)] = run_config(tdgl, zoo, config, outmode, k)
    print("C09DIGEST " + json.dumps(res))


if __name__ == "__main__":
    main()
