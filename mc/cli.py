"""Command line: ./check <ID> [--tier quick|thorough] [--replay FILE] [--jobs N]"""
from __future__ import annotations

import argparse
import os
import sys


def main(argv=None):
    ap = argparse.ArgumentParser()
    ap.add_argument("cid")
    ap.add_argument("--tier", default=os.environ.get("VERIF_TIER", "quick"), choices=["quick", "thorough"])
    ap.add_argument("--replay")
    ap.add_argument("--jobs", type=int, default=None)
    ap.add_argument("--seed", type=int, default=None)
    a = ap.parse_args(argv)
    try:
        seed = a.seed if a.seed is not None else int(os.environ.get("VERIF_SEED", "0"))
    except ValueError:
        seed = 0
    from . import core

    cid = a.cid.upper()
    if a.replay:
        return core.replay(cid, a.replay)
    return core.Runner(cid, a.tier, seed, a.jobs).explore()


if __name__ == "__main__":
    sys.exit(main())
