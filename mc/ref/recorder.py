"""RM-recorder: the executable specification of what a run records (DESIGN Appendix A).

Inputs: save interval k, solve time T, the environment's answers a_0, a_1, ... (a_j = the time
step used by update j of the main stage; answers beyond the list default to `default`).
Nothing here imports tdgl.
"""
from __future__ import annotations


def answer(script, j, default):
    return script[j] if j < len(script) else default


def times_of(script, default, T, cap=10_000):
    """t_0 = 0, t_{s+1} = t_s + a_s;  N = min{ s : t_s >= T }."""
    t = [0.0]
    s = 0
    while t[-1] < T:
        t.append(t[-1] + answer(script, s, default))
        s += 1
        if s > cap:
            raise RuntimeError("script never reaches T")
    return t, s  # len(t) == N + 1


def expected_labels(k, N):
    labels = list(range(0, N + 1, k))
    if N % k:
        labels.append(N)
    return labels


def expected_run(k, T, script, default):
    """Full expectation for an uninterrupted main stage."""
    t, N = times_of(script, default, T)
    labels = expected_labels(k, N)
    return {
        "N": N,
        "labels": labels,
        "times": [t[s] for s in labels],
        "all_times": t,
        "dts": [answer(script, j, default) for j in range(N)],
    }


def expected_stopped(k, f, kind):
    """Stop injected at update f of the main stage (the update of step f never completes).

    error : frames [0, k, ... <= f]
    cancel: the same plus frame(f) if f mod k != 0
    """
    labels = list(range(0, f + 1, k))
    if kind == "cancel" and f % k:
        labels.append(f)
    return labels
