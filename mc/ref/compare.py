"""Comparison of two runs that are *equivalent but not identical* (C04 gauge pairs, C08 unit pairs).

The library's mu is defined up to an additive constant (singular Neumann Laplacian) and psi up to a
global phase, so the comparison is made on |psi|, supercurrent, normal current, mu minus its
area-weighted mean, and psi after removing the gauge phase and the best global phase.
Returns the worst relative discrepancy per field over all frames (relative to the field's maximum
over the run, floored by `floor`).
"""
from __future__ import annotations

import numpy as np

from .physics import align_phase, area_mean_removed


def compare_frames(fa, fb, areas, chi=None, floor=1e-6, scale_b=None):
    """fa, fb: lists of frame dicts (drivers.read_frames). chi: per-site gauge phase of run b relative to a.
    scale_b: optional dict name -> factor applied to run b's dataset before comparing."""
    out = {}
    if len(fa) != len(fb):
        return {"n_frames": float("inf")}
    names = ["abs_psi", "supercurrent", "normal_current", "mu", "psi"]
    maxv = {n: floor for n in names}
    diffs = {n: 0.0 for n in names}
    for a, b in zip(fa, fb):
        if int(a["attrs"]["step"]) != int(b["attrs"]["step"]):
            return {"labels": float("inf")}
        pa, pb = np.asarray(a["data"]["psi"]), np.asarray(b["data"]["psi"])
        if chi is not None:
            pb = pb * np.exp(-1j * chi)
        pb_al = align_phase(pa, pb)
        pairs = {
            "abs_psi": (np.abs(pa), np.abs(pb)),
            "psi": (pa, pb_al),
            "supercurrent": (np.asarray(a["data"]["supercurrent"]), np.asarray(b["data"]["supercurrent"])),
            "normal_current": (np.asarray(a["data"]["normal_current"]), np.asarray(b["data"]["normal_current"])),
            "mu": (area_mean_removed(a["data"]["mu"], areas), area_mean_removed(b["data"]["mu"], areas)),
        }
        for n, (x, y) in pairs.items():
            if scale_b and n in scale_b:
                y = y * scale_b[n]
            maxv[n] = max(maxv[n], float(np.abs(x).max()))
            diffs[n] = max(diffs[n], float(np.abs(x - y).max()))
    for n in names:
        out[n] = diffs[n] / maxv[n]
    return out
