"""Reference models written from docs/background.rst; none of this imports tdgl.

RM-units : SI unit model (Phi0, mu0 -> Bc2, A0, K0, K_u) and conversion of user quantities.
RM-step  : one documented TDGL update on a mesh given as raw arrays (dense numpy).
RawMesh  : adjacency/geometry recomputed from (sites, edges, areas, dual lengths) arrays.
"""
from __future__ import annotations

import numpy as np
from scipy import constants as C

PHI0 = C.h / (2 * C.e)
MU0 = C.mu_0

LEN = {"um": 1e-6, "nm": 1e-9, "mm": 1e-3, "m": 1.0}
FIELD = {"mT": 1e-3, "uT": 1e-6, "T": 1.0}
CURR = {"uA": 1e-6, "nA": 1e-9, "mA": 1e-3, "A": 1.0}


class Units:
    """SI scales of a device: xi, lambda, d given in `length_units`."""

    def __init__(self, xi, lam, d, length_units="um", field_units="mT", current_units="uA"):
        self.lu = LEN[length_units]
        self.fu = FIELD[field_units]
        self.cu = CURR[current_units]
        self.xi = xi * self.lu
        self.lam = lam * self.lu
        self.d = d * self.lu
        self.Lambda = self.lam**2 / self.d
        self.Bc2 = PHI0 / (2 * np.pi * self.xi**2)
        self.A0 = self.xi * self.Bc2
        self.K0 = 4 * self.xi * self.Bc2 / (MU0 * self.Lambda)
        # sheet-current unit of the dimensionless edge currents
        self.Ku = PHI0 / (2 * np.pi * MU0 * self.Lambda * self.xi)

    def A_dimless(self, A_user):
        """vector potential in field_units*length_units -> units of A0"""
        return np.asarray(A_user) * self.fu * self.lu / self.A0

    def terminal_flux(self, current_user, terminal_length_user):
        """dimensionless normal current density through a terminal carrying `current_user`."""
        I = current_user * self.cu
        L = terminal_length_user * self.lu
        return I / (L * self.Ku)

    def total_dimless_current(self, current_user):
        """dimensionless total current  sum_e l_e J  (l in units of xi)."""
        return current_user * self.cu / (self.xi * self.Ku)


class RawMesh:
    """Geometry re-derived from plain arrays (dimensionless coordinates, units of xi)."""

    def __init__(self, sites, edges, areas, dual_lengths, boundary_edge_indices=None):
        self.sites = np.asarray(sites, float)
        self.edges = np.asarray(edges, int)
        self.areas = np.asarray(areas, float)
        self.s = np.asarray(dual_lengths, float)
        self.n = len(self.sites)
        self.m = len(self.edges)
        self.vec = self.sites[self.edges[:, 1]] - self.sites[self.edges[:, 0]]
        self.e = np.linalg.norm(self.vec, axis=1)
        self.centers = 0.5 * (self.sites[self.edges[:, 1]] + self.sites[self.edges[:, 0]])
        self.bidx = None if boundary_edge_indices is None else np.asarray(boundary_edge_indices, int)

    @classmethod
    def from_mesh(cls, mesh):
        em = mesh.edge_mesh
        return cls(mesh.sites, em.edges, mesh.areas, em.dual_edge_lengths, em.boundary_edge_indices)

    @classmethod
    def from_h5(cls, g):
        em = g["edge_mesh"]
        return cls(
            np.array(g["sites"]),
            np.array(em["edges"]),
            np.array(g["areas"]),
            np.array(em["dual_edge_lengths"]),
            np.array(em["boundary_edge_indices"]),
        )

    # ----- discrete calculus by explicit sums -------------------------------------------
    def outflow(self, F):
        """sum_j (+/-) s_ij F_ij leaving each cell (F oriented edge0 -> edge1)."""
        out = np.zeros(self.n, dtype=np.result_type(F, float))
        np.add.at(out, self.edges[:, 0], self.s * F)
        np.add.at(out, self.edges[:, 1], -self.s * F)
        return out

    def link(self, A_edges):
        """U_ij = exp(-i A . (r_j - r_i)) for each edge oriented edge0 -> edge1."""
        if A_edges is None:
            return np.ones(self.m, complex)
        return np.exp(-1j * np.einsum("ij,ij->i", np.asarray(A_edges, float), self.vec))

    def cov_laplacian(self, psi, A_edges, pinned=()):
        U = self.link(A_edges)
        i, j = self.edges[:, 0], self.edges[:, 1]
        w = self.s / self.e
        out = np.zeros(self.n, complex)
        np.add.at(out, i, w * (U * psi[j] - psi[i]))
        np.add.at(out, j, w * (np.conj(U) * psi[i] - psi[j]))
        out /= self.areas
        pinned = np.asarray(list(pinned), int)
        if pinned.size:
            out[pinned] = psi[pinned]  # identity rows (eigenvalue 1), as documented in the builder
        return out

    def supercurrent(self, psi, A_edges):
        U = self.link(A_edges)
        i, j = self.edges[:, 0], self.edges[:, 1]
        return np.imag(np.conj(psi[i]) * (U * psi[j] - psi[i]) / self.e)

    def laplacian_dense(self):
        L = np.zeros((self.n, self.n))
        i, j = self.edges[:, 0], self.edges[:, 1]
        w = self.s / self.e
        np.add.at(L, (i, j), w / self.areas[i])
        np.add.at(L, (j, i), w / self.areas[j])
        np.add.at(L, (i, i), -w / self.areas[i])
        np.add.at(L, (j, j), -w / self.areas[j])
        return L

    def boundary_injection(self, flux_on_boundary_edges):
        """sum over boundary edges e containing i of (l_e/2) * flux_e (per cell, not per area)."""
        inj = np.zeros(self.n)
        be = self.edges[self.bidx]
        le = self.e[self.bidx]
        np.add.at(inj, be[:, 0], 0.5 * le * flux_on_boundary_edges)
        np.add.at(inj, be[:, 1], 0.5 * le * flux_on_boundary_edges)
        return inj


def psi_update(psi, mu, eps, gamma, u, dt, lap_psi, dtype=np.longdouble):
    """Documented eqs. z, w, quad-2, quad-root, psi-sol in extended precision.

    Returns dict(z, w, c, b, disc, x_plus, x_minus, psi_new)."""
    cdt = np.clongdouble if dtype is np.longdouble else np.complex128
    psi = np.asarray(psi, cdt)
    mu = np.asarray(mu, dtype)
    eps = np.asarray(eps, dtype)
    lap = np.asarray(lap_psi, cdt)
    g = dtype(gamma)
    dt = dtype(dt)
    u = dtype(u)
    a2 = psi.real**2 + psi.imag**2
    U = np.cos(mu * dt) - 1j * np.sin(mu * dt)
    z = U * (g * g / 2) * psi
    w = z * a2 + U * (psi + (dt / u) * np.sqrt(1 + g * g * a2) * ((eps - a2) * psi + lap))
    c = w.real * z.real + w.imag * z.imag
    b = 2 * c + 1
    z2 = z.real**2 + z.imag**2
    w2 = w.real**2 + w.imag**2
    # b^2 - 4 |z|^2 |w|^2 with |z|^2 |w|^2 = |conj(z) w|^2 = c^2 + s^2: the c^2 terms cancel identically, which leaves
    # 4c + 1 - 4 s^2.  Evaluated this way the reference has no cancellation of terms ~ gamma^8 (it is the same number).
    s_ = w.imag * z.real - w.real * z.imag
    disc = 4 * c + 1 - 4 * s_ * s_
    with np.errstate(all="ignore"):
        sq = np.sqrt(np.where(disc >= 0, disc, 0))
        x_plus = 2 * w2 / (b + sq)
        x_minus = np.where(b - sq != 0, 2 * w2 / np.where(b - sq != 0, b - sq, 1), np.inf)
    psi_new = w - z * x_plus
    return dict(z=z, w=w, c=c, b=b, disc=disc, x_plus=x_plus, x_minus=x_minus, psi_new=psi_new, z2=z2, w2=w2, s=s_)


def reference_step(rm: RawMesh, psi, mu, eps, gamma, u, dt, A_edges, pinned=(), boundary_flux=None, dA_dt=0.0):
    """One documented update (no screening): returns psi', mu' (zero-mean), Js, Jn in float64."""
    lap = rm.cov_laplacian(np.asarray(psi, complex), A_edges, pinned)
    r = psi_update(psi, mu, eps, gamma, u, dt, lap)
    psi_new = np.asarray(r["psi_new"], complex)
    Js = rm.supercurrent(psi_new, A_edges)
    dA = np.zeros(rm.m) + dA_dt
    rhs = rm.outflow(Js - dA) / rm.areas
    if boundary_flux is not None:
        rhs = rhs - rm.boundary_injection(boundary_flux) / rm.areas
    L = rm.laplacian_dense()
    mu_new = np.linalg.lstsq(L, rhs, rcond=None)[0]
    mu_new = mu_new - np.average(mu_new, weights=rm.areas)
    Jn = -(mu_new[rm.edges[:, 1]] - mu_new[rm.edges[:, 0]]) / rm.e - dA
    return dict(psi=psi_new, mu=mu_new, Js=Js, Jn=Jn, disc=np.asarray(r["disc"], float))


def area_mean_removed(mu, areas):
    mu = np.asarray(mu, float)
    return mu - np.average(mu, weights=areas)


def align_phase(psi_ref, psi):
    """psi multiplied by the global phase that best matches psi_ref."""
    ov = np.vdot(psi, psi_ref)  # sum conj(psi)*psi_ref
    if abs(ov) == 0:
        return psi
    return psi * (ov / abs(ov))
