"""Device / mesh fixtures, rebuilt from the working tree on every run (per-worker memo only).

Lengths are given in units of a base length L0 (1 um); `scale` re-expresses the *same physical
device* in another length unit (nm: x1000, mm: x1e-3).  Fixtures are deliberately asymmetric:
Mesh.from_triangulation rejects exactly cocircular point sets.
"""
from __future__ import annotations

import numpy as np

UNIT_SCALE = {"um": 1.0, "nm": 1e3, "mm": 1e-3}

_MEMO = {}


def _tdgl():
    import tdgl
    from tdgl.geometry import box, circle, ellipse

    return tdgl, box, circle, ellipse


def make_layer(s=1.0, xi=1.0, lam=2.0, d=0.1, gamma=10.0, u=5.79, z0=0.0, conductivity=None):
    tdgl, *_ = _tdgl()
    return tdgl.Layer(
        coherence_length=xi * s, london_lambda=lam * s, thickness=d * s, gamma=gamma, u=u, z0=z0 * s,
        conductivity=conductivity,
    )


def _poly(name, pts, s):
    tdgl, *_ = _tdgl()
    return tdgl.Polygon(name, points=np.asarray(pts) * s)


def geometry(name, s=1.0, terminals=True, holes=True, probes=True):
    """Returns dict(film, holes, terminals, probe_points) of tdgl Polygons for fixture `name`."""
    tdgl, box, circle, ellipse = _tdgl()
    P = tdgl.Polygon
    hol, term, prob = [], [], None
    if name == "G1d":  # G1 with terminals that reach deep into the film: they contain interior sites and the centres of interior edges
        film = P("film", points=box(6.0, 4.0, points=40) * s)
        term = [
            P("source", points=box(2.6, 4.4, center=(-3.0, 0.0)) * s),
            P("drain", points=box(2.2, 3.0, center=(3.0, 0.1)) * s),
        ]
        prob = np.array([(-1.0, 0.3), (1.2, -0.2)]) * s
    elif name in ("G1", "G2"):
        film = P("film", points=box(6.0, 4.0, points=40) * s)
        if name == "G2":
            hol = [P("hole", points=circle(0.8, points=24, center=(0.3, 0.2)) * s)]
        term = [
            P("source", points=box(0.2, 4.4, center=(-3.0, 0.0)) * s),
            P("drain", points=box(0.2, 3.0, center=(3.0, 0.1)) * s),
        ]
        prob = np.array([(-2.0, 0.3), (2.1, -0.2)]) * s
    elif name == "G3":  # tee, three terminals of different lengths
        a = P("film", points=box(7.0, 2.0, points=44))
        b = P("stem", points=box(1.6, 3.0, points=24, center=(0.4, -2.0)))
        film = P("film", points=a.union(b).resample(61).points * s)
        term = [
            P("left", points=box(0.2, 2.4, center=(-3.5, 0.0)) * s),
            P("right", points=box(0.2, 1.4, center=(3.5, 0.2)) * s),
            P("stem", points=box(2.0, 0.2, center=(0.4, -3.5)) * s),
        ]
        prob = np.array([(-2.5, 0.1), (2.4, 0.15), (0.5, -2.6)]) * s
    elif name == "G4":  # cross, four terminals
        a = P("film", points=box(7.0, 1.8, points=46))
        b = P("v", points=box(1.6, 6.2, points=42, center=(0.3, 0.1)))
        film = P("film", points=a.union(b).resample(67).points * s)
        term = [
            P("w", points=box(0.2, 2.2, center=(-3.5, 0.0)) * s),
            P("e", points=box(0.2, 1.3, center=(3.5, 0.1)) * s),
            P("n", points=box(2.0, 0.2, center=(0.3, 3.2)) * s),
            P("s", points=box(1.1, 0.2, center=(0.35, -3.0)) * s),
        ]
        prob = np.array([(-2.5, 0.1), (2.4, 0.15)]) * s
    elif name == "G5":  # ring, no terminals
        film = P("film", points=ellipse(3.0, 2.8, points=44, angle=7) * s)
        hol = [P("hole", points=ellipse(1.1, 1.0, points=20, center=(0.1, -0.05), angle=11) * s)]
        term = []
        prob = np.array([(-2.0, 0.3), (2.1, -0.2)]) * s
    elif name == "G6":  # rotated ellipse, two short terminals
        film = P("film", points=ellipse(3.5, 2.0, points=52, angle=30) * s)
        term = [
            P("a", points=circle(0.9, points=30, center=(3.03, 1.75)) * s),
            P("b", points=circle(0.7, points=30, center=(-3.03, -1.75)) * s),
        ]
        prob = np.array([(-1.5, -0.8), (1.6, 0.9)]) * s
    elif name == "G7":  # notched bar with an off-centre elliptical hole
        a = P("film", points=box(7.0, 3.0, points=48))
        n1 = P("n1", points=box(0.8, 1.0, points=12, center=(-0.9, 1.2)))
        n2 = P("n2", points=box(0.7, 0.9, points=12, center=(1.1, -1.25)))
        film = a.difference(n1, n2).resample(61)
        film = P("film", points=film.points * s)
        hol = [P("hole", points=ellipse(0.7, 0.4, points=18, center=(-2.0, -0.3), angle=20) * s)]
        term = [
            P("source", points=box(0.2, 3.4, center=(-3.5, 0.0)) * s),
            P("drain", points=box(0.2, 2.2, center=(3.5, 0.1)) * s),
        ]
        prob = np.array([(-2.8, 0.9), (2.6, 0.2)]) * s
    else:
        raise KeyError(name)
    return dict(
        film=film,
        holes=hol if holes else [],
        terminals=term if terminals else [],
        probe_points=prob if probes else None,
    )


DENSITY = {"coarse": 1.0, "fine": 0.6, "xfine": 0.4}


def device(
    name,
    density="coarse",
    smooth=0,
    units="um",
    terminals=True,
    holes=True,
    probes=True,
    mesh=True,
    memo=True,
    **layer_kw,
):
    """A meshed tdgl.Device for fixture `name` (memoised per worker process)."""
    key = (name, density, smooth, units, terminals, holes, probes, mesh, tuple(sorted(layer_kw.items())))
    if memo and key in _MEMO:
        return _MEMO[key]
    tdgl, *_ = _tdgl()
    s = UNIT_SCALE[units]
    g = geometry(name, s, terminals=terminals, holes=holes, probes=probes)
    dev = tdgl.Device(
        name,
        layer=make_layer(s, **layer_kw),
        film=g["film"],
        holes=g["holes"],
        terminals=g["terminals"],
        probe_points=g["probe_points"],
        length_units=units,
    )
    if mesh:
        dev.make_mesh(max_edge_length=DENSITY[density] * s * layer_kw.get("xi", 1.0), smooth=smooth)
    if memo:
        _MEMO[key] = dev
    return dev


def with_mesh_of(dev_src, name, units, terminals=True, holes=True, probes=True, **layer_kw):
    """The same physical device as `dev_src` stated in `units`, sharing its dimensionless Mesh."""
    dev = device(name, units=units, terminals=terminals, holes=holes, probes=probes, mesh=False, memo=False, **layer_kw)
    dev.mesh = dev_src.mesh
    return dev


# ---------------------------------------------------------------------------------------------
# synthetic triangulations (sites, elements) for operator-level checks
# ---------------------------------------------------------------------------------------------
def hex_lattice(n, m, shear=0.0, jitter=0.0, seed=0):
    """n x m lattice of points triangulated with Delaunay; mild shear / jitter keeps it generic."""
    from scipy.spatial import Delaunay

    rng = np.random.default_rng(seed)
    pts = []
    for j in range(m):
        for i in range(n):
            x = i + 0.5 * (j % 2) + shear * j
            y = j * np.sqrt(3) / 2
            pts.append((x, y))
    pts = np.array(pts, dtype=float)
    # an irrational, site-dependent offset removes exact cocircularity
    pts += 0.013 * np.column_stack([np.sin(1.7 * np.arange(len(pts))), np.cos(2.3 * np.arange(len(pts)))])
    if jitter:
        pts += jitter * (rng.random(pts.shape) - 0.5)
    tri = Delaunay(pts).simplices
    tri = _drop_slivers(pts, tri)
    return compact(pts, tri)


def random_delaunay(npts, seed):
    from scipy.spatial import Delaunay

    rng = np.random.default_rng(seed)
    # Poisson-disc-like: jittered grid inside a unit-aspect box, so no slivers in the interior
    k = int(np.ceil(np.sqrt(npts)))
    g = np.array([(i, j) for i in range(k) for j in range(k)], dtype=float)[:npts]
    pts = g + 0.55 * (rng.random(g.shape) - 0.5)
    tri = Delaunay(pts).simplices
    tri = _drop_slivers(pts, tri)
    return compact(pts, tri)


def annulus(nr, nt, r0=1.0, r1=2.2):
    """Structured annulus (one hole), slightly perturbed."""
    pts = []
    for a in range(nr):
        r = r0 + (r1 - r0) * a / (nr - 1)
        for b in range(nt):
            th = 2 * np.pi * (b + 0.37 * a) / nt
            pts.append((r * np.cos(th) * (1 + 0.01 * np.sin(3 * th)), r * np.sin(th)))
    pts = np.array(pts)
    tri = []
    for a in range(nr - 1):
        for b in range(nt):
            p00 = a * nt + b
            p01 = a * nt + (b + 1) % nt
            p10 = (a + 1) * nt + b
            p11 = (a + 1) * nt + (b + 1) % nt
            tri.append((p00, p01, p11))
            tri.append((p00, p11, p10))
    tri = np.array(tri)
    # orient counter-clockwise
    a, b, c = pts[tri[:, 0]], pts[tri[:, 1]], pts[tri[:, 2]]
    area = 0.5 * ((b[:, 0] - a[:, 0]) * (c[:, 1] - a[:, 1]) - (b[:, 1] - a[:, 1]) * (c[:, 0] - a[:, 0]))
    tri[area < 0] = tri[area < 0][:, ::-1]
    return pts, tri


def _drop_slivers(pts, tri, min_ratio=0.08):
    """Remove hull slivers (area / longest edge^2 tiny) that Delaunay of a point cloud creates."""
    keep = np.ones(len(tri), bool)
    changed = True
    while changed:
        changed = False
        t = tri[keep]
        edges = np.sort(np.concatenate([t[:, [0, 1]], t[:, [1, 2]], t[:, [2, 0]]]), axis=1)
        uniq, counts = np.unique(edges, axis=0, return_counts=True)
        bset = {tuple(e) for e in uniq[counts == 1]}
        idx = np.where(keep)[0]
        for k in idx:
            tr = tri[k]
            p = pts[tr]
            a = 0.5 * abs((p[1, 0] - p[0, 0]) * (p[2, 1] - p[0, 1]) - (p[1, 1] - p[0, 1]) * (p[2, 0] - p[0, 0]))
            L = max(np.linalg.norm(p[0] - p[1]), np.linalg.norm(p[1] - p[2]), np.linalg.norm(p[2] - p[0]))
            on_b = any(tuple(sorted((tr[i], tr[(i + 1) % 3]))) in bset for i in range(3))
            if on_b and a / L**2 < min_ratio:
                keep[k] = False
                changed = True
    return tri[keep]


def compact(pts, tri):
    used = np.unique(tri)
    remap = -np.ones(len(pts), int)
    remap[used] = np.arange(len(used))
    return pts[used], remap[tri]
