"""Drivers that close the system: the real Runner / DataHandler / Solution machinery driven by
an environment the harness owns.

ScriptedSolver: a TDGLSolver whose `update` is the scripted environment.  It returns the scripted
time step, arrays that count updates, and appends to the running state exactly the columns the
real update appends.  Everything else (solve(), Runner, RunningState, DataHandler, Solution,
DynamicsData) is the real code.
"""
from __future__ import annotations

import numpy as np

THERMAL_CODE = 1.0e6


def enc_mu(j, p):
    return 1000.0 * (j + 1) + p + 0.25


def enc_theta(j, p):
    return -(1000.0 * (j + 1) + p) - 0.5


def tiny_device(probes=0, terminals=False):
    """~50-site asymmetric device used by the recorder checks."""
    import tdgl
    from tdgl.geometry import box, ellipse

    film = tdgl.Polygon("film", points=ellipse(2.6, 1.7, points=22, angle=17))
    pts = {0: None, 2: [(-1.2, 0.1), (1.1, 0.3)], 3: [(-1.2, 0.1), (1.1, 0.3), (0.1, -0.8)]}[probes]
    terms = None
    if terminals:
        terms = [
            tdgl.Polygon("source", points=ellipse(0.6, 0.9, points=20, center=(-2.45, -0.75), angle=17)),
            tdgl.Polygon("drain", points=ellipse(0.6, 0.8, points=20, center=(2.45, 0.75), angle=17)),
        ]
    dev = tdgl.Device(
        "tiny",
        layer=tdgl.Layer(coherence_length=1.0, london_lambda=2.0, thickness=0.1, gamma=1.0),
        film=film,
        terminals=terms,
        probe_points=pts,
    )
    dev.make_mesh(max_edge_length=1.0)
    return dev


_TINY = {}


def tiny(probes=0, terminals=False):
    key = (probes, terminals)
    if key not in _TINY:
        _TINY[key] = tiny_device(probes, terminals)
    return _TINY[key]


def make_scripted_solver(device, options, script, default_dt, thermal_default=None, hook=None, **solver_kw):
    """Returns a ScriptedSolver instance.

    script        : list of time steps answered by the updates of the main stage (then default_dt)
    hook(stage, j, state, running_state) : called at the start of every update (fault injection,
                    abstract-state recording); may raise.
    """
    from tdgl.solver.solver import SolverResult, TDGLSolver

    thermal = bool(options.skip_time)
    thermal_default = default_dt if thermal_default is None else thermal_default

    class ScriptedSolver(TDGLSolver):
        def __init__(self, *a, **k):
            super().__init__(*a, **k)
            self.env_stage = 0  # 1-based index of the stage in progress
            self.env_j = 0  # update index within the stage
            self.env_calls = []  # (stage_name, j, step label seen, running_state.step, dt answered)

        def stage_name(self):
            if thermal:
                return {1: "thermal", 2: "main"}.get(self.env_stage, f"extra{self.env_stage}")
            return {1: "main"}.get(self.env_stage, f"extra{self.env_stage}")

        def update(
            self,
            state,
            running_state,
            dt,
            *,
            psi,
            mu,
            supercurrent,
            normal_current,
            induced_vector_potential,
            applied_vector_potential=None,
            epsilon=None,
        ):
            if state["step"] == 0:
                self.env_stage += 1
                self.env_j = 0
            j = self.env_j
            stage = self.stage_name()
            if hook is not None:
                hook(stage, j, state, running_state)
            if stage == "main":
                a = script[j] if j < len(script) else default_dt
                code = 0.0
            else:
                a = thermal_default
                code = THERMAL_CODE
            self.env_calls.append((stage, j, int(state["step"]), int(running_state.step), float(a)))
            self.env_j += 1
            running_state.append("dt", a)
            if self.probe_points is not None:
                n = len(self.probe_points)
                running_state.append("mu", [code + enc_mu(j, p) for p in range(n)])
                running_state.append("theta", [-code + enc_theta(j, p) for p in range(n)])
            if self.options.include_screening:
                running_state.append("screening_iterations", code + j + 1)
            res = [a, psi + 1, mu + 1, supercurrent + 1, normal_current + 1, induced_vector_potential + 1]
            if self.dynamic_vector_potential:
                res.append(applied_vector_potential)
            if self.dynamic_epsilon:
                res.append(epsilon)
            return SolverResult(*res)

    return ScriptedSolver(device=device, options=options, **solver_kw)


def read_frames(path):
    """All frames of an output file read with h5py only: list of dicts in group-name order."""
    from .core import LibraryOutputError

    try:
        return _read_frames(path)
    except (OSError, KeyError, ValueError, TypeError) as exc:
        raise LibraryOutputError(f"output-file:{type(exc).__name__}") from exc


def _read_frames(path):
    import h5py

    frames = []
    with h5py.File(path, "r") as f:
        names = sorted(f["data"].keys(), key=lambda s: int(s))
        for name in names:
            g = f["data"][name]
            fr = {"name": name, "attrs": {}, "data": {}, "records": None}
            for k, v in g.attrs.items():
                fr["attrs"][k] = v
            for k in g:
                if k == "running_state":
                    fr["records"] = {c: np.array(g[k][c]) for c in g[k]}
                else:
                    fr["data"][k] = np.array(g[k])
            frames.append(fr)
        top = [k for k in f.keys()]
    return frames, top


def hand_step(solver, nsteps, start=None, dt0=None):
    """Step a (fresh) real solver by hand through its documented `update` method, exactly as the
    run loop does: returns the list of states after 0..nsteps updates and the time steps used.
    With `start` (a state dict returned by an earlier call) a new stage is run on the same solver: the arrays are handed on as
    they are, the step counter and the clock restart from 0 (what the run loop does after thermalisation)."""
    from tdgl.solver.runner import RunningState

    opts = solver.options
    names = ["psi", "mu", "supercurrent", "normal_current", "induced_vector_potential"]
    ne = solver.num_edges
    vals = [solver.psi_init, solver.mu_init, np.zeros(ne), np.zeros(ne), np.zeros((ne, 2))]
    if solver.dynamic_vector_potential:
        names.append("applied_vector_potential")
        vals.append(solver.current_A_applied)
    if solver.dynamic_epsilon:
        names.append("epsilon")
        vals.append(solver.epsilon)
    sizes = {"dt": 1}
    if solver.probe_points is not None:
        sizes["mu"] = len(solver.probe_points)
        sizes["theta"] = len(solver.probe_points)
    if opts.include_screening:
        sizes["screening_iterations"] = 1
    rs = RunningState(sizes, 1)
    if start is not None:
        vals = [start[n] for n in names]
    states = [dict(zip(names, vals))]
    dts = []
    # count genuine refusals of the step solver (observation only: the call is passed through)
    refusals = {"n": 0, "per_step": []}
    orig = solver.solve_for_psi_squared  # instance attribute if an environment is installed, else the static method

    def counting(**kw):
        out = orig(**kw)
        if out is None:
            refusals["n"] += 1
        return out

    solver.solve_for_psi_squared = counting
    solver.env_refusals = refusals
    time = 0.0
    dt = opts.dt_init if dt0 is None else dt0
    for i in range(nsteps):
        st = {"step": i, "time": time, "dt": dt}
        rs.clear()
        before = refusals["n"]
        res = solver.update(st, rs, dt, **dict(zip(names, vals)))
        refusals["per_step"].append(refusals["n"] - before)
        dt, *vals = res
        dts.append(float(dt))
        time += dt
        states.append(dict(zip(names, vals)))
    return states, dts


def update_once(solver, state, step, time, dt):
    """One call of the documented `update` with an arbitrary state dict (as returned by hand_step), not necessarily the one the
    previous call produced."""
    from tdgl.solver.runner import RunningState

    opts = solver.options
    sizes = {"dt": 1}
    if solver.probe_points is not None:
        sizes["mu"] = len(solver.probe_points)
        sizes["theta"] = len(solver.probe_points)
    if opts.include_screening:
        sizes["screening_iterations"] = 1
    rs = RunningState(sizes, 1)
    return solver.update({"step": step, "time": time, "dt": dt}, rs, dt, **state)


def read_raw_mesh(path):
    """RawMesh from an output file (top-level mesh of an unfinished run, or the device mesh of a finished one)."""
    import h5py

    from .ref.physics import RawMesh

    with h5py.File(path, "r") as f:
        g = f["mesh"] if "mesh" in f else f["solution/device/mesh"]
        return RawMesh.from_h5(g)
