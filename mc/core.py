"""Core of the bounded-exhaustive exploration framework.

A *check* is a module in mc.checks exposing

    ID        : "C05"
    LEVEL     : evidence level ("model_checking" | "exploration" | "fault_enumeration")
    RULE      : how cases are enumerated / what makes one non-trivial
    ASSUMPTIONS : list[str]
    def cases(tier, seed) -> list[dict]        # complete enumeration for the tier (JSON-able dicts)
    def run_case(case) -> CaseResult           # executed in a worker process against the real code
    (optional) def floors(tier) -> dict        # non-vacuity floors, see Runner.finish
    (optional) WORKERS, NUMBA_THREADS

Nothing is sampled: `cases` returns the whole bounded space and every element is executed.
`seed` only rotates the enumeration order and seeds generated alphabets.
"""
from __future__ import annotations

import hashlib
import importlib
import json
import multiprocessing as mp
import os
import shutil
import sys
import tempfile
import time
import traceback
from pathlib import Path

VERIF = Path(__file__).resolve().parent.parent
# evidence and replay files go to /verif unless a scratch run (tools/mutate.sh, tools/mutscan.py) redirects them
OUT = Path(os.environ.get("VERIF_OUT") or VERIF)
REPO = os.environ.get("VERIF_REPO", "/repo")
KNOWN_FILE = VERIF / "known_findings.json"


# --------------------------------------------------------------------------------------
# results
# --------------------------------------------------------------------------------------
class CaseResult:
    """What one executed case reports back to the explorer."""

    def __init__(self):
        self.violations = []  # list of {"sig": {...}, "detail": {...}}
        self.nontrivial = False  # by the check's RULE
        self.key = None  # canonical identity of the case (for distinct counting)
        self.states = set()  # abstract states seen (strings)
        self.transitions = 0
        self.outcome = None  # observed outcome class (string)
        self.resid = {}  # name -> worst residual observed
        self.counts = {}  # name -> integer counters (summed)
        self.info = []  # informational notes (not violations)
        self.executions = 1  # executions of the implementation performed by this case

    def violate(self, kind, **kw):
        detail = kw.pop("detail", {})
        sig = {"kind": kind}
        sig.update(kw)
        self.violations.append({"sig": jsonable(sig), "detail": jsonable(detail)})

    def residual(self, name, value):
        value = float(value)
        if value != value:  # nan
            value = float("inf")
        if value > self.resid.get(name, -1.0):
            self.resid[name] = value

    def count(self, name, n=1):
        self.counts[name] = self.counts.get(name, 0) + int(n)

    def pack(self):
        return {
            "violations": self.violations,
            "nontrivial": bool(self.nontrivial),
            "key": self.key,
            "states": sorted(self.states),
            "transitions": int(self.transitions),
            "outcome": self.outcome,
            "resid": self.resid,
            "counts": self.counts,
            "info": self.info,
            "executions": int(self.executions),
        }


def jsonable(x):
    import numpy as np

    if isinstance(x, dict):
        return {str(k): jsonable(v) for k, v in x.items()}
    if isinstance(x, (list, tuple, set, frozenset)):
        return [jsonable(v) for v in x]
    if isinstance(x, np.ndarray):
        if x.size > 64:
            return {"shape": list(x.shape), "head": jsonable(x.ravel()[:16].tolist())}
        return jsonable(x.tolist())
    if isinstance(x, (np.integer,)):
        return int(x)
    if isinstance(x, (np.floating,)):
        return float(x)
    if isinstance(x, (np.bool_,)):
        return bool(x)
    if isinstance(x, complex) or isinstance(x, np.complexfloating):
        return {"re": float(x.real), "im": float(x.imag)}
    if isinstance(x, float):
        if x != x:
            return "nan"
        if x in (float("inf"), float("-inf")):
            return "inf" if x > 0 else "-inf"
        return x
    if isinstance(x, (int, str, bool)) or x is None:
        return x
    return repr(x)


def case_key(case):
    return hashlib.sha256(json.dumps(jsonable(case), sort_keys=True).encode()).hexdigest()[:16]


# --------------------------------------------------------------------------------------
# worker side
# --------------------------------------------------------------------------------------
_CHECKS = {}


def get_check(cid):
    if cid not in _CHECKS:
        _CHECKS[cid] = importlib.import_module(f"mc.checks.{cid.lower()}")
    return _CHECKS[cid]


def _worker_init(repo, numba_threads):
    os.environ["NUMBA_NUM_THREADS"] = str(numba_threads)
    os.environ.setdefault("OMP_NUM_THREADS", "1")
    os.environ.setdefault("OPENBLAS_NUM_THREADS", "1")
    os.environ.setdefault("MKL_NUM_THREADS", "1")
    os.environ["MPLBACKEND"] = "Agg"
    if repo not in sys.path:
        sys.path.insert(0, repo)
    if str(VERIF) not in sys.path:
        sys.path.insert(0, str(VERIF))
    import logging
    import warnings

    logging.disable(logging.CRITICAL)
    warnings.filterwarnings("ignore")
    from . import env

    env.install_quiet()
    _start_coverage(repo)


_COV = None


def _start_coverage(repo):
    """tools/mutscan.py only: record which library lines each check executes (VERIF_COVERAGE = output directory)"""
    global _COV
    out = os.environ.get("VERIF_COVERAGE")
    if not out or _COV is not None:
        return
    import coverage

    _COV = coverage.Coverage(data_file=os.path.join(out, f"cov.{os.getpid()}"), include=[os.path.join(os.path.realpath(repo), "tdgl", "*")], config_file=False)
    _COV.start()


def _in_library(tb) -> bool:
    """True when the exception left library (tdgl) code: walking from the innermost frame outwards and skipping
    third-party / standard-library frames, the first frame that belongs either to the library or to the harness is a
    library frame (numpy or scipy raising inside a call made by tdgl is the library's exception, not the harness')."""
    frames = traceback.extract_tb(tb)
    lib = os.path.join(os.path.realpath(REPO), "tdgl") + os.sep
    own = os.path.join(str(VERIF), "mc") + os.sep
    for fr in reversed(frames):
        fn = os.path.realpath(fr.filename)
        if fn.startswith(lib):
            return True
        if fn.startswith(own):
            return False
    return False


class CaseTimeout(BaseException):
    """Raised inside a case by the per-case wall-clock limit (VERIF_CASE_TIMEOUT seconds, default 1200): a case normally takes
    seconds. If library code is on the stack the case is reported as a violation (the library neither answered nor raised,
    e.g. an endless retry loop); otherwise it is a harness error."""


def _case_limit():
    try:
        return float(os.environ.get("VERIF_CASE_TIMEOUT", "1200"))
    except ValueError:
        return 1200.0


class LibraryOutputError(Exception):
    """Raised by harness code when what the library produced (an output file, a record table) is missing or cannot be
    interpreted in the documented layout; reported as a violation, not as a harness error."""


def _any_library_frame(tb) -> bool:
    lib = os.path.join(os.path.realpath(REPO), "tdgl") + os.sep
    return any(os.path.realpath(fr.filename).startswith(lib) for fr in traceback.extract_tb(tb))


def _lib_frame(frames):
    lib = os.path.join(os.path.realpath(REPO), "tdgl") + os.sep
    for fr in reversed(frames):
        if os.path.realpath(fr.filename).startswith(lib):
            return os.path.basename(fr.filename) + ":" + fr.name
    return os.path.basename(frames[-1].filename) + ":" + frames[-1].name


def run_one(cid, case):
    """Run one case in a fresh sandbox directory. Returns a packed CaseResult."""
    chk = get_check(cid)
    old = os.getcwd()
    old_tmp = tempfile.tempdir
    base = tempfile.mkdtemp(prefix=f"mc-{cid}-")
    sandbox = os.path.join(base, "cwd")
    private_tmp = os.path.join(base, "tmp")
    os.mkdir(sandbox)
    os.mkdir(private_tmp)
    tempfile.tempdir = private_tmp  # the library's TemporaryDirectory() lands here: observable, race-free
    os.chdir(sandbox)
    t0 = time.time()
    import signal
    import threading

    use_alarm = threading.current_thread() is threading.main_thread() and _case_limit() > 0
    # a case may carry a tighter limit of its own ("timeout_s"): used where the broken behaviour is an endless loop
    limit = _case_limit()
    if isinstance(case, dict) and case.get("timeout_s"):
        limit = min(limit, float(case["timeout_s"])) if limit > 0 else float(case["timeout_s"])

    def _on_alarm(signum, frame):
        raise CaseTimeout(f"case exceeded {limit:.0f} s")

    if use_alarm:
        old_handler = signal.signal(signal.SIGALRM, _on_alarm)
        signal.setitimer(signal.ITIMER_REAL, limit)
    try:
        try:
            res = chk.run_case(case)
        finally:
            if use_alarm:
                signal.setitimer(signal.ITIMER_REAL, 0)
                signal.signal(signal.SIGALRM, old_handler)
        packed = res.pack()
    except BaseException as exc:  # noqa: BLE001
        tb = exc.__traceback__
        text = "".join(traceback.format_exception(type(exc), exc, tb))[-3000:]
        r = CaseResult()
        r.key = case_key(case)
        if isinstance(exc, CaseTimeout) and _any_library_frame(tb):
            r.violate("no-answer-within-time-limit", where=_lib_frame(traceback.extract_tb(tb)), detail={"limit_s": limit, "traceback": text})
            packed = r.pack()
        elif isinstance(exc, LibraryOutputError):
            r.violate("library-output-malformed", what=str(exc.args[0]) if exc.args else "", detail={"traceback": text})
            packed = r.pack()
        elif _in_library(tb) and not isinstance(exc, (KeyboardInterrupt, SystemExit)):
            # the library raised where the harness needed it to succeed
            frames = traceback.extract_tb(tb)
            r.violate(
                "library-exception",
                exc=type(exc).__name__,
                where=_lib_frame(frames),
                detail={"traceback": text},
            )
            packed = r.pack()
        else:
            packed = r.pack()
            packed["harness_error"] = text
    finally:
        os.chdir(old)
        tempfile.tempdir = old_tmp
        shutil.rmtree(base, ignore_errors=True)
        if _COV is not None:
            _COV.stop()
            _COV.save()
            _COV.start()
    packed["case"] = case
    packed["wall"] = time.time() - t0
    if packed.get("key") is None:
        packed["key"] = case_key(case)
    return packed


def _run_one_star(args):
    return run_one(*args)


# --------------------------------------------------------------------------------------
# known findings
# --------------------------------------------------------------------------------------
def load_known():
    if not KNOWN_FILE.exists():
        return []
    return json.loads(KNOWN_FILE.read_text())["findings"]


def match_known(cid, sig, known):
    for ent in known:
        if ent.get("property") != cid or ent.get("status") != "known":
            continue
        m = ent["match"]
        if all(_match_val(sig.get(k), v) for k, v in m.items()):
            return ent
    return None


def _match_val(got, want):
    if isinstance(want, dict) and "any_of" in want:
        return got in want["any_of"]
    return got == want


# --------------------------------------------------------------------------------------
# runner
# --------------------------------------------------------------------------------------
class Runner:
    def __init__(self, cid, tier, seed, jobs=None):
        self.cid = cid
        self.tier = tier
        self.seed = seed
        self.chk = get_check(cid)
        self.jobs = jobs or getattr(self.chk, "WORKERS", None) or min(16, os.cpu_count() or 4)
        self.t0 = time.time()

    def explore(self):
        chk = self.chk
        cases = chk.cases(self.tier, self.seed)
        if not cases:
            print(f"HARNESS-ERROR {self.cid}: empty case list")
            return 2
        # seed rotates the order only
        rot = self.seed % len(cases)
        order = cases[rot:] + cases[:rot]
        if hasattr(chk, "cost"):
            # long cases first (stable: the seed's rotation still decides the order among equals) - scheduling only
            order = sorted(order, key=lambda c: -chk.cost(c))
        results = self._execute(order)
        return self.finish(order, results)

    def _execute(self, cases):
        numba_threads = getattr(self.chk, "NUMBA_THREADS", 1)
        jobs = min(self.jobs, len(cases))
        args = [(self.cid, c) for c in cases]
        if jobs <= 1 or os.environ.get("VERIF_INPROC"):
            _worker_init(REPO, numba_threads)
            return [run_one(*a) for a in args]
        os.environ.setdefault("VERIF_CASE_TIMEOUT", "1200" if self.tier == "quick" else "3600")  # inherited by the spawned workers
        # per-worker fixtures that outlive a case (a stored run shared by many cases) live in directories tagged with this run;
        # the workers are terminated with the pool, so the main process removes those directories when the pool is gone
        os.environ["VERIF_RUN_TAG"] = f"run{os.getpid()}"
        ctx = mp.get_context("spawn")
        chunk = 1 if len(cases) < 4000 else max(1, min(8, len(cases) // (jobs * 4)))
        try:
            with ctx.Pool(jobs, initializer=_worker_init, initargs=(REPO, numba_threads)) as pool:
                out = []
                for r in pool.imap_unordered(_run_one_star, args, chunksize=chunk):
                    out.append(r)
                return out
        finally:
            import glob

            for d in glob.glob(os.path.join(os.environ.get("TMPDIR", "/tmp"), f"*-{os.environ['VERIF_RUN_TAG']}-*")):
                shutil.rmtree(d, ignore_errors=True)

    # ------------------------------------------------------------------
    def finish(self, cases, results):
        cid, chk = self.cid, self.chk
        known = load_known()
        harness_errors = [r for r in results if r.get("harness_error")]
        viol, known_hits = [], {}
        states, transitions, outcomes = set(), 0, {}
        resid, counts, infos = {}, {}, []
        nontrivial_keys = set()
        executions = 0
        for r in results:
            states.update(r["states"])
            transitions += r["transitions"]
            executions += r.get("executions", 1)
            if r["outcome"] is not None:
                outcomes[r["outcome"]] = outcomes.get(r["outcome"], 0) + 1
            for k, v in r["resid"].items():
                if v > resid.get(k, -1):
                    resid[k] = v
            for k, v in r["counts"].items():
                counts[k] = counts.get(k, 0) + v
            infos.extend(r["info"][:2])
            if r["nontrivial"]:
                nontrivial_keys.add(r["key"])
            for v in r["violations"]:
                ent = match_known(cid, v["sig"], known)
                if ent is not None:
                    k = ent["what"]
                    known_hits.setdefault(k, {"count": 0, "example": {"case": r["case"], "sig": v["sig"]}})
                    known_hits[k]["count"] += 1
                else:
                    viol.append((r["case"], v))

        # replay files for unlisted violations (deduplicated by signature, capped)
        printed = 0
        seen_sig = set()
        replay_paths = []
        rdir = OUT / "replays" / cid
        for case, v in viol:
            sk = json.dumps(v["sig"], sort_keys=True)
            if sk in seen_sig:
                continue
            seen_sig.add(sk)
            if printed >= 25:
                continue
            rdir.mkdir(parents=True, exist_ok=True)
            h = hashlib.sha256((sk + json.dumps(jsonable(case), sort_keys=True)).encode()).hexdigest()[:12]
            path = rdir / f"{h}.json"
            path.write_text(
                json.dumps(
                    {
                        "property": cid,
                        "tier": self.tier,
                        "seed": self.seed,
                        "case": jsonable(case),
                        "signature": v["sig"],
                        "detail": v["detail"],
                        "replay_cmd": f"./check {cid} --replay replays/{cid}/{h}.json",
                    },
                    indent=1,
                )
            )
            replay_paths.append(str(path))
            print(f"VIOLATION property={cid} replay={path}")
            print(f"  signature: {sk[:400]}")
            printed += 1
        for what, hit in known_hits.items():
            print(f"KNOWN-FINDING: property={cid} {what} [{hit['count']} case(s)]")

        # non-vacuity floors
        floors = chk.floors(self.tier) if hasattr(chk, "floors") else {}
        floor_fail = []
        meas = {
            "evaluations": len(results),
            "distinct_nontrivial": len(nontrivial_keys),
            "outcomes": len(outcomes),
            "states": len(states),
        }
        meas.update({f"count:{k}": v for k, v in counts.items()})
        for k, v in floors.items():
            if meas.get(k, 0) < v:
                floor_fail.append(f"{k}={meas.get(k, 0)} < floor {v}")

        wall = time.time() - self.t0
        samples = [jsonable(r["case"]) for r in results[:3]]
        cov = {
            "evaluations": len(results),
            "distinct_nontrivial": len(nontrivial_keys),
            "rule": chk.RULE,
            "samples": samples,
            "exhaustive": not harness_errors,
            "bound": chk.bound(self.tier) if hasattr(chk, "bound") else self.tier,
            "distinct_outcomes": len(outcomes),
            "outcomes": outcomes,
            "worst_residuals": resid,
            "tolerances": getattr(chk, "TOLERANCES", {}),
            "counters": counts,
            "caps_hit": [],
            "known_findings_matched": {k: v["count"] for k, v in known_hits.items()},
            "known_finding_examples": {k: v["example"] for k, v in known_hits.items()},
            "unlisted_violation_signatures": len(seen_sig),
            "replays": replay_paths,
            "informational": infos[:10],
            "workers": self.jobs,
        }
        if chk.LEVEL == "model_checking":
            cov["states"] = max(len(states), 0)
            cov["transitions"] = int(transitions)
            cov["traces_validated_against_impl"] = int(executions)
            cov["state_definition"] = getattr(chk, "STATE_DEF", "")
        ev = {
            "property_id": cid,
            "tier": self.tier,
            "seed": int(self.seed),
            "level": chk.LEVEL,
            "coverage": cov,
            "assumptions": list(getattr(chk, "ASSUMPTIONS", [])),
            "wall_s": round(wall, 2),
            "violations": len(seen_sig),
        }
        edir = OUT / "evidence"
        edir.mkdir(parents=True, exist_ok=True)
        (edir / f"{cid}.json").write_text(json.dumps(ev, indent=1, sort_keys=True))

        print(
            f"{cid} tier={self.tier} seed={self.seed}: cases={len(results)} nontrivial-distinct={len(nontrivial_keys)}"
            f" states={len(states)} transitions={transitions} executions={executions} outcomes={len(outcomes)}"
            f" unlisted-violations={len(seen_sig)} known={sum(v['count'] for v in known_hits.values())}"
            f" wall={wall:.1f}s"
        )
        if resid:
            print("  worst residuals: " + ", ".join(f"{k}={v:.3g}" for k, v in sorted(resid.items())))
        if harness_errors:
            print(f"HARNESS-ERROR {cid}: {len(harness_errors)} case(s) raised inside the harness; first:")
            print(json.dumps(jsonable(harness_errors[0]["case"]))[:500])
            print(harness_errors[0]["harness_error"])
        if seen_sig:
            return 1
        if harness_errors:
            return 2
        if floor_fail:
            print(f"HARNESS-ERROR {cid}: non-vacuity floor not met: {floor_fail}")
            return 2
        return 0


def replay(cid, path):
    data = json.loads(Path(path).read_text())
    _worker_init(REPO, getattr(get_check(cid), "NUMBA_THREADS", 1))
    r1 = run_one(cid, data["case"])
    r2 = run_one(cid, data["case"])
    s1 = json.dumps([v["sig"] for v in r1["violations"]], sort_keys=True)
    s2 = json.dumps([v["sig"] for v in r2["violations"]], sort_keys=True)
    if s1 != s2:
        print(f"HARNESS-ERROR {cid}: replay is not deterministic")
        return 2
    if r1.get("harness_error"):
        print(r1["harness_error"])
        return 2
    known = load_known()
    bad = 0
    for v in r1["violations"]:
        ent = match_known(cid, v["sig"], known)
        if ent:
            print(f"KNOWN-FINDING: property={cid} {ent['what']}")
        else:
            bad += 1
            print(f"VIOLATION property={cid} replay={path}")
            print("  signature:", json.dumps(v["sig"], sort_keys=True)[:600])
            print("  detail:", json.dumps(v["detail"], sort_keys=True)[:1500])
    if not r1["violations"]:
        print(f"{cid}: replayed case holds")
    return 1 if bad else 0
