"""C13 - screening returns a self-consistent induced vector potential or fails.

kernel family : all (n <= 6 sites) x (m <= 5 points) shapes x value patterns: the accelerated kernel
                equals the direct double sum (extended precision).
run family    : devices x fields x tolerances x (step size, drag) x iteration caps; every call of the
                documented TDGLSolver.get_induced_vector_potential of every step is intercepted and its
                returned error / iterate are recomputed from the *argument* currents by an independent SI
                computation (mu0/4pi, cell areas, site averaging re-implemented); a step is returned only
                if the last error is below the tolerance, otherwise RuntimeError and no frame.
"""
from __future__ import annotations

import itertools

import numpy as np

from ..core import CaseResult, case_key
from ..ref.physics import MU0, RawMesh, Units

ID = "C13"
LEVEL = "model_checking"
RULE = (
    "kernel: full product of shapes (n sites 1..6, m points 1..5) x current patterns (unit basis in x / y at one site, mixed signs, all ones) x area patterns "
    "(uniform, 6 decades) x distance scales; runs: devices x field x tolerance x (alpha,beta) x max_iterations_per_step, 6 steps, every screening iteration of every step is a state. "
    "Non-trivial = at least one screening iteration with non-zero current; distinct = case parameters."
)
STATE_DEF = "screening iterations checked (case, step, iteration); transitions = kernel calls"
ASSUMPTIONS = [
    "sheet current of a cell = K0 * (1/2) * mean over incident edges of (edge current * unit edge vector) (the library's documented site average, re-implemented)",
    "SI: A = (mu0/4pi) sum_j K_j a_j / |r - r_j| with a_j the Voronoi cell area; constants from scipy.constants",
    "relative mismatch of an iteration = max over edges of |A_sum(J) - previous iterate| / |new iterate| (the documented exit test)",
]
TOLERANCES = {"kernel": 1e-12, "error": 1e-6, "iterate": 1e-9, "stored_multiple": 5.0}
AB = [(0.1, 0.5), (0.5, 0.5), (1.0, 1.0), (0.05, 0.1),
      # divergent settings (accepted by SolverOptions.validate): the iterates grow until they overflow; such a step must end in the error
      (10.0, 0.5), (4.5, 1.0)]
DIVERGENT = (4, 5)


def bound(tier):
    return {
        "quick": "kernel: 30 shapes x 24 patterns; runs: 3 devices x field {0.2,1.0} x tol {1e-2,1e-3} x 4 (alpha,beta) x max_iter {1000,3}, 5 steps",
        "thorough": "kernel: 30 shapes x 48 patterns x 3 seeds; runs: 4 devices x field {0.2,0.6,1.0} x tol {1e-2,1e-3,1e-4} x 4 (alpha,beta) x max_iter {1000,3}, 6 steps, + terminals with bias",
    }[tier]


def floors(tier):
    return {"distinct_nontrivial": 60, "states": 300, "count:converged_steps": 100, "count:raised_steps": 10, "outcomes": 3}


def cases(tier, seed):
    quick = tier == "quick"
    out = []
    for n in range(1, 7):
        for m in range(1, 6):
            out.append(dict(fam="kernel", n=n, m=m, seed=seed, reps=1 if quick else 3))
    devs = ["G1s", "G5", "G2"] + ([] if quick else ["G1b"])
    fields = (0.2, 1.0) if quick else (0.2, 0.6, 1.0)
    tols = (1e-2, 1e-3) if quick else (1e-2, 1e-3, 1e-4)
    for d, B, tol, ab, mi in itertools.product(devs, fields, tols, range(4), (1000, 3)):
        out.append(dict(fam="run", dev=d, B=B, tol=tol, ab=ab, maxit=mi))
    for d, ab, mi in itertools.product(("G5", "G1s") if quick else devs, DIVERGENT, (1000, 250)):
        out.append(dict(fam="run", dev=d, B=0.6, tol=1e-3, ab=ab, maxit=mi))
    if quick:
        # a biased device (terminals and screening together)
        for mi in (1000, 3):
            out.append(dict(fam="run", dev="G1b", B=0.2, tol=1e-2, ab=0, maxit=mi))
    # the same physics stated in other units (xi = 1000 nm / 1e-3 mm): pins the powers of xi in the SI prefactor
    for d, B in itertools.product(("G5nm", "G5mm"), (0.2,) if quick else fields):
        for tol in (1e-3,) if quick else tols:
            out.append(dict(fam="run", dev=d, B=B, tol=tol, ab=0, maxit=1000))
    # screening settings edited on the options object after the solver was built
    for d, ab in itertools.product(("G1s", "G5"), (0, 1)):
        out.append(dict(fam="run", dev=d, B=0.6, tol=1e-3, ab=ab, maxit=1000, edit_after_build=True))
    # transport current at exactly zero applied field (the induced potential comes from the sheet current, not from the field)
    for tol in (1e-2, 1e-3):
        out.append(dict(fam="run", dev="G1b", B=0.0, tol=tol, ab=0, maxit=1000))
    # an undriven screened run (currents identically zero: the sum is zero) after a driven screened run in the same process
    for d in ("G1s", "G5"):
        out.append(dict(fam="run", dev=d, B=0.0, tol=1e-3, ab=0, maxit=1000, prior="driven"))
    # another film (other london_lambda and thickness) on the same Mesh object was solved with screening first
    for d, B in itertools.product(("G1s", "G5", "G5nm"), (0.2, 0.6)):
        out.append(dict(fam="run", dev=d, B=B, tol=1e-3, ab=0, maxit=1000, prior="other_layer_on_shared_mesh"))
    # thermalisation first: iterations of both stages are judged; the recorded stage starts from the thermalised state
    for d, tol in itertools.product(("G1s", "G5"), (1e-2, 1e-3) if quick else tols):
        out.append(dict(fam="run", dev=d, B=0.5, tol=tol, ab=0, maxit=1000, thermal=True))
    for d in ("G1s", "G5"):
        out.append(dict(fam="off", dev=d, B=0.6))
        # screening switched off for a run that continues from a screened solution (non-initial start)
        out.append(dict(fam="off", dev=d, B=0.6, seeded="screened"))
        out.append(dict(fam="off", dev=d, B=0.6, seeded="unscreened"))
    # field sweeps: each run is seeded with the converged solution of the previous field; every solution the caller still
    # holds must stay self-consistent (its stored potential reproduces the sum from its stored currents)
    for d, tol in itertools.product(("G1s", "G5"), (1e-2, 1e-3) if quick else tols):
        out.append(dict(fam="sweep", dev=d, tol=tol, fields=[0.2, 0.5, 0.35]))
        out.append(dict(fam="sweep", dev=d, tol=tol, fields=[0.2, 0.5, 0.35], reuse_options=True))
    return out


# ---------------------------------------------------------------------------------------------
def direct_sum(J, areas, sites, pts):
    J = np.asarray(J, np.longdouble)
    areas = np.asarray(areas, np.longdouble)
    sites = np.asarray(sites, np.longdouble)
    pts = np.asarray(pts, np.longdouble)
    out = np.zeros((len(pts), 2), np.longdouble)
    mag = np.zeros((len(pts), 2), np.longdouble)
    for i in range(len(pts)):
        d = np.sqrt(((pts[i] - sites) ** 2).sum(axis=1))
        for k in range(2):
            terms = J[:, k] * areas / d
            out[i, k] = terms.sum()
            mag[i, k] = np.abs(terms).sum()
    return out, mag


def run_kernel(case):
    from tdgl.solver.screening import get_A_induced_numba

    res = CaseResult()
    res.key = case_key(case)
    n, m = case["n"], case["m"]
    res.executions = 0
    for rep in range(case["reps"]):
        rng = np.random.default_rng([case["seed"], n, m, rep])
        base_sites = rng.random((n, 2)) * 2 - 1
        base_pts = rng.random((m, 2)) * 2 + 1.5  # disjoint from the sites: distances > 0
        jp = []
        for j in range(n):
            for k in range(2):
                e = np.zeros((n, 2))
                e[j, k] = 1.0
                jp.append(("basis", e))
        jp.append(("ones", np.ones((n, 2))))
        jp.append(("mixed", rng.normal(size=(n, 2))))
        ap = [("uniform", np.ones(n)), ("decades", 10.0 ** np.linspace(-3, 3, n))]
        sp = [("near", 1e-3), ("unit", 1.0), ("far", 1e3)]
        for (jn, J), (an, a), (sn, sc) in itertools.product(jp, ap, sp):
            sites = base_sites * sc
            pts = base_pts * sc
            out = np.full((m, 2), np.nan)
            get_A_induced_numba(np.ascontiguousarray(J), np.ascontiguousarray(a), np.ascontiguousarray(sites), np.ascontiguousarray(pts), out)
            ref, mag = direct_sum(J, a, sites, pts)
            res.executions += 1
            res.transitions += 1
            res.states.add(f"kernel:{n}x{m}:{jn}:{an}:{sn}")
            if not np.all(np.isfinite(out)):
                res.violate("kernel-output-not-fully-written", detail={"n": n, "m": m})
                continue
            err = np.abs(out - np.asarray(ref, float)) / np.maximum(np.asarray(mag, float), 1e-300)
            err = float(np.where(np.asarray(mag, float) > 0, err, np.abs(out)).max())
            res.residual("kernel", err)
            if err > TOLERANCES["kernel"]:
                res.violate("kernel-differs-from-direct-sum", pattern=jn, areas=an, detail={"n": n, "m": m, "scale": sn, "err": err})
    res.nontrivial = True
    res.outcome = "kernel"
    return res


# ---------------------------------------------------------------------------------------------
def _device(name):
    from .. import zoo

    if name == "G1s":  # strongly screening: lambda < xi
        return zoo.device("G1", terminals=False, lam=0.5)
    if name == "G1b":
        return zoo.device("G1", lam=0.7)
    if name == "G5":
        return zoo.device("G5", lam=1.0)
    if name in ("G5nm", "G5mm"):
        return zoo.with_mesh_of(zoo.device("G5", lam=1.0), "G5", name[2:], lam=1.0)
    return zoo.device("G2", terminals=False, lam=1.0)


class SI:
    """Independent SI evaluation of the induced potential on the mesh edges, in units of A0."""

    def __init__(self, dev):
        L = dev.layer
        self.U = Units(L.coherence_length, L.london_lambda, L.thickness, dev.length_units)
        self.rm = RawMesh.from_mesh(dev.mesh)
        rm = self.rm
        self.deg = np.bincount(rm.edges.ravel(), minlength=rm.n).astype(float)
        self.unit = rm.vec / rm.e[:, None]
        xi = self.U.xi
        r_s = rm.sites * xi
        r_e = rm.centers * xi
        d = np.sqrt(((r_e[:, None, :] - r_s[None, :, :]) ** 2).sum(axis=2))  # (m, n) metres
        self.G = (MU0 / (4 * np.pi)) * (rm.areas * xi**2)[None, :] / d  # times K [A/m] -> T m
        self.K0 = self.U.K0
        self.A0 = self.U.A0

    def site_current(self, F):
        """K_j / K0 : half the mean over incident edges of F * unit vector"""
        rm = self.rm
        acc = np.zeros((rm.n, 2))
        for col in (0, 1):
            np.add.at(acc, (rm.edges[:, col], slice(None)), F[:, None] * self.unit)
        return 0.5 * acc / self.deg[:, None]

    def A_of(self, F):
        K = self.K0 * self.site_current(np.asarray(F, float))
        return (self.G @ K) / self.A0


def run_run(case):
    import tdgl

    from .. import drivers

    res = CaseResult()
    res.key = case_key(case)
    dev = _device(case["dev"])
    alpha, beta = AB[case["ab"]]
    dt = 2.0**-10 if case["ab"] in DIVERGENT else 2.0**-5  # (small steps: the psi update itself is not refused while the iterates grow)
    nsteps = 5
    fu = {"G5nm": "uT", "G5mm": "T"}.get(case["dev"], "mT")
    kw = dict(applied_vector_potential=case["B"] * {"uT": 1e3, "T": 1e-3, "mT": 1.0}[fu])
    if case["dev"] == "G1b":
        kw["terminal_currents"] = {"source": 1.0, "drain": -1.0}
    opts = tdgl.SolverOptions(
        solve_time=nsteps * dt, dt_init=dt, dt_max=dt, adaptive=False, save_every=1, output_file="out.h5",
        include_screening=True, screening_tolerance=case["tol"], screening_step_size=alpha, screening_step_drag=beta,
        max_iterations_per_step=case["maxit"], progress_interval=10**9, field_units=fu, skip_time=(3 * dt if case.get("thermal") else 0.0),
    )
    if case.get("edit_after_build"):
        # the options object is edited between building the solver and running it: the run uses the settings as they are then
        opts.screening_tolerance, opts.screening_step_size, opts.screening_step_drag = 30 * case["tol"], 0.5 * alpha, min(1.0, 1.5 * beta)
    if case.get("prior") == "other_layer_on_shared_mesh":
        # a screened run of another film on the same Mesh object first (Device.copy() shares the mesh; the layer is the copy's own)
        other = dev.copy()
        other.layer.london_lambda = 2.5 * dev.layer.london_lambda
        other.layer.thickness = 0.5 * dev.layer.thickness
        po = tdgl.SolverOptions(solve_time=3 * dt, dt_init=dt, dt_max=dt, adaptive=False, save_every=3, output_file="prior.h5", include_screening=True,
                                screening_tolerance=1e-2, progress_interval=10**9, field_units=fu)
        tdgl.solve(other, po, applied_vector_potential=0.6 * {"uT": 1e3, "T": 1e-3, "mT": 1.0}[fu])
    elif case.get("prior"):
        po = tdgl.SolverOptions(solve_time=3 * dt, dt_init=dt, dt_max=dt, adaptive=False, save_every=3, output_file="prior.h5", include_screening=True,
                                screening_tolerance=1e-2, progress_interval=10**9, field_units=fu)
        tdgl.solve(dev, po, applied_vector_potential=0.6 * {"uT": 1e3, "T": 1e-3, "mT": 1.0}[fu])
    solver = tdgl.TDGLSolver(dev, opts, **kw)
    if case.get("edit_after_build"):
        opts.screening_tolerance, opts.screening_step_size, opts.screening_step_drag = case["tol"], alpha, beta
    si = SI(dev)
    calls = []
    orig = solver.get_induced_vector_potential
    cur = {"step": -1, "stage": 0}
    orig_update = solver.update
    STAGE = 1000  # steps of the recorded stage are keyed as they are labelled; thermalisation steps are keyed -STAGE + step

    def update(state, running_state, dt_, **k):
        st = int(state["step"])
        if case.get("thermal"):
            if cur["stage"] == 0 and st < cur.get("last", -1):
                cur["stage"] = 1  # the step counter restarted: recorded stage
            cur["last"] = st
            cur["step"] = st if cur["stage"] == 1 else st - STAGE
        else:
            cur["step"] = st
        return orig_update(state, running_state, dt_, **k)

    def wrapper(current_density, A_induced_vals, velocity):
        J = np.array(current_density, float)
        A_prev = np.array(A_induced_vals[-1], float)
        v_prev = np.array(velocity[-1], float) * np.ones_like(A_prev)
        A_new, err = orig(current_density, A_induced_vals, velocity)
        calls.append((cur["step"], J, A_prev, v_prev, np.array(A_new, float), float(err)))
        return A_new, err

    solver.update = update
    solver.get_induced_vector_potential = wrapper
    raised = None
    try:
        solver.solve()
    except RuntimeError as exc:
        if "Screening calculation failed to converge" in str(exc):
            raised = "screening"
        elif "Solver failed to converge" in str(exc):
            raised = "step-solver"  # the psi update itself was refused at a fixed time step (documented failure)
            res.count("step_solver_refused")
        else:
            raise
    frames, _ = drivers.read_frames("out.h5")
    labels = [int(fr["attrs"]["step"]) for fr in frames]
    # ---- every iteration -------------------------------------------------------------------
    by_step = {}
    for c in calls:
        by_step.setdefault(c[0], []).append(c)
    for step, its in sorted(by_step.items()):
        for it, (_, J, A_prev, v_prev, A_new, err) in enumerate(its):
            if not (np.all(np.isfinite(A_new)) and np.all(np.isfinite(J)) and np.isfinite(err)) or max(np.abs(A_new).max(), np.abs(J).max()) > 1e100:
                res.count("iterations_beyond_the_floating_point_range")  # a diverging iteration: only its outcome is judged (below)
                break
            A_ref = si.A_of(J)
            dA = A_ref - A_prev
            v = (1 - beta) * v_prev + alpha * dA
            want_new = A_prev + v
            num = np.linalg.norm(dA, axis=1)
            den = np.maximum(np.linalg.norm(want_new, axis=1), 1e-20)
            want_err = float((num / den).max())
            res.transitions += 1
            res.states.add(f"{res.key}:{step}:{min(it, 40)}")
            scale = max(float(np.abs(want_new).max()), 1e-30)
            e_it = float(np.abs(A_new - want_new).max()) / scale
            if np.abs(J).max() > 0:
                res.nontrivial = True
            else:
                res.count("iterations_with_zero_current")
            if True:
                res.residual("iterate", e_it)
                if e_it > TOLERANCES["iterate"]:
                    res.violate("iterate-not-from-SI-sum", detail={"case": case, "step": step, "iteration": it, "rel": e_it,
                                                                   "ratio": float(np.abs(A_new).max() / scale)})
                    break
                e_err = abs(err - want_err) / max(want_err, 1e-300)
                res.residual("error", e_err)
                if e_err > TOLERANCES["error"]:
                    res.violate("reported-error-is-not-the-mismatch", detail={"case": case, "step": step, "iteration": it,
                                                                              "reported": err, "recomputed": want_err})
                    break
        else:
            continue
        break
    # ---- accepted steps ends converged; otherwise raise + no frame ----------------------------
    completed = labels[-1] if labels else 0  # frame s exists <=> update s-1 returned
    for step, its in sorted(by_step.items()):
        last_err = its[-1][5]
        returned = (step + 1) in labels
        if step < 0:
            # thermalisation step (no frames): it returned unless it is the step at which the run raised
            returned = not (raised is not None and step == max(by_step))
            res.count("thermalisation_steps")
        if returned:
            res.count("converged_steps")
            if not (last_err < case["tol"]):
                res.violate("unconverged-step-accepted", detail={"case": case, "step": step, "last_error": last_err, "iterations": len(its)})
            if len(its) > case["maxit"] + 1:
                res.violate("iteration-cap-exceeded", detail={"case": case, "step": step, "iterations": len(its)})
        else:
            res.count("raised_steps")
            if raised is None:
                res.violate("step-missing-without-error", detail={"case": case, "step": step})
            if last_err < case["tol"] and len(its) <= case["maxit"] and raised != "step-solver":
                res.violate("converged-step-refused", detail={"case": case, "step": step, "last_error": last_err, "iterations": len(its)})
    if raised is None and labels and labels[-1] != nsteps:
        res.violate("run-ended-early-without-error", detail={"labels": labels})
    # ---- stored potential reproduces the sum from stored currents -----------------------------
    for fr in frames if case.get("thermal") else frames[1:]:
        F = np.asarray(fr["data"]["supercurrent"]) + np.asarray(fr["data"]["normal_current"])
        A = np.asarray(fr["data"]["induced_vector_potential"])
        A_ref = si.A_of(F)
        den = np.maximum(np.linalg.norm(A, axis=1), 1e-20)
        mism = float((np.linalg.norm(A_ref - A, axis=1) / den).max())
        res.residual("stored_mismatch_over_tol", mism / case["tol"])
        if not np.isfinite(mism) or float(np.abs(A).max()) > 1e100:
            # an accepted step whose stored potential is beyond the floating-point range of its own norm: the iteration diverged (D38)
            res.violate("diverged-step-accepted", step_size=AB[case["ab"]][0], step_drag=AB[case["ab"]][1],
                        detail={"case": case, "label": int(fr["attrs"]["step"]), "max_abs_A": float(np.abs(A).max())})
            break
        if mism > TOLERANCES["stored_multiple"] * case["tol"]:
            res.violate("stored-potential-not-self-consistent", step_size=AB[case["ab"]][0], step_drag=AB[case["ab"]][1],
                        under_damped=bool(AB[case["ab"]][1] <= 0.5 and AB[case["ab"]] != (0.1, 0.5) and case["ab"] not in DIVERGENT),
                        detail={"case": case, "label": int(fr["attrs"]["step"]), "mismatch": mism, "tol": case["tol"]})
            break
    res.outcome = f"run;{'raised' if raised else 'completed'};maxit={case['maxit']}"
    return res


def run_off(case):
    import tdgl

    from .. import drivers

    res = CaseResult()
    res.key = case_key(case)
    dev = _device(case["dev"])
    dt = 2.0**-5
    opts = tdgl.SolverOptions(solve_time=6 * dt, dt_init=dt, dt_max=dt, adaptive=False, save_every=1, output_file="out.h5",
                              include_screening=False, progress_interval=10**9)
    seed = None
    if case.get("seeded"):
        o0 = tdgl.SolverOptions(solve_time=3 * dt, dt_init=dt, dt_max=dt, adaptive=False, save_every=3, output_file="seed.h5",
                                include_screening=(case["seeded"] == "screened"), screening_tolerance=1e-3, progress_interval=10**9)
        seed = tdgl.solve(dev, o0, applied_vector_potential=case["B"])
    sol = tdgl.solve(dev, opts, applied_vector_potential=case["B"], seed_solution=seed)
    frames, _ = drivers.read_frames("out.h5")
    for fr in frames:
        res.states.add(f"{res.key}:{int(fr['attrs']['step'])}")
        res.transitions += 1
        if np.any(np.asarray(fr["data"]["induced_vector_potential"]) != 0):
            res.violate("induced-potential-nonzero-without-screening", seeded=case.get("seeded", "no"), detail={"label": int(fr["attrs"]["step"])})
            break
    # ... and as exposed by the loaded solution
    for step in sol.data_range if hasattr(sol, "data_range") else ():
        pass
    sol.solve_step = -1
    if np.any(np.asarray(sol.tdgl_data.induced_vector_potential) != 0):
        res.violate("induced-potential-nonzero-without-screening", seeded=case.get("seeded", "no"), via="solution", detail={})
    res.nontrivial = True
    res.outcome = "off"
    return res


def run_sweep(case):
    import tdgl

    from .. import drivers

    res = CaseResult()
    res.key = case_key(case)
    dev = _device(case["dev"])
    si = SI(dev)
    dt = 2.0**-5
    held = []  # (solution, path, label of its last frame)
    seed = None
    shared = None
    for i, B in enumerate(case["fields"]):
        opts = tdgl.SolverOptions(solve_time=4 * dt, dt_init=dt, dt_max=dt, adaptive=False, save_every=2, output_file=f"sweep{i}.h5",
                                  include_screening=True, screening_tolerance=case["tol"], progress_interval=10**9)
        if case.get("reuse_options"):
            # the caller keeps one options object for the whole sweep and only edits the output path
            if shared is None:
                shared = opts
            shared.output_file = f"sweep{i}.h5"
            opts = shared
        try:
            sol = tdgl.solve(dev, opts, applied_vector_potential=B, seed_solution=seed)
        except RuntimeError as exc:
            if "converge" not in str(exc):
                raise
            res.count("raised_steps")
            break
        held.append((sol, f"sweep{i}.h5"))
        seed = sol
        # every solution obtained so far, as the caller sees it in memory and as it is on disk
        for j, (s_j, path) in enumerate(held):
            frames, _ = drivers.read_frames(path)
            last = frames[-1]
            mem_A = np.asarray(s_j.tdgl_data.induced_vector_potential)
            res.transitions += 1
            res.states.add(f"{res.key}:{i}:{j}")
            if not np.array_equal(mem_A, np.asarray(last["data"]["induced_vector_potential"])):
                res.violate("held-solution-changed-by-a-later-run", what="induced_vector_potential", detail={"case": case, "held": j, "after_run": i})
                continue
            F = np.asarray(s_j.tdgl_data.supercurrent) + np.asarray(s_j.tdgl_data.normal_current)
            A_ref = si.A_of(F)
            den = np.maximum(np.linalg.norm(mem_A, axis=1), 1e-20)
            mism = float((np.linalg.norm(A_ref - mem_A, axis=1) / den).max())
            res.residual("stored_mismatch_over_tol", mism / case["tol"])
            if mism > TOLERANCES["stored_multiple"] * case["tol"]:
                res.violate("stored-potential-not-self-consistent", detail={"case": case, "held": j, "after_run": i, "mismatch": mism})
    res.count("converged_steps", 4 * len(held))
    res.executions = len(held)
    res.nontrivial = len(held) >= 2
    res.outcome = "sweep"
    return res


def run_case(case):
    return {"kernel": run_kernel, "run": run_run, "off": run_off, "sweep": run_sweep}[case["fam"]](case)
