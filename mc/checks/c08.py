"""C08 - results do not depend on the unit system used to state the problem.

run family : the same physical device, field and currents stated in (um,mT,uA), (nm,uT,nA), (mm,T,mA)
             with the same dimensionless mesh; every recorded step of each restatement is compared with the
             (um,mT,uA) run (dimensionless fields), and Solution.current_density in A/m is compared between
             systems and with the SI unit model.
flux family: for every triangle of every mesh, every field value and every (length, field) unit pair, the
             gauge phase accumulated around the triangle equals 2 pi * flux / Phi0 (an identity for a uniform
             field with mid-point evaluation).
"""
from __future__ import annotations

import itertools

import numpy as np

from ..core import CaseResult, case_key
from ..ref.compare import compare_frames
from ..ref.physics import PHI0, RawMesh, Units

ID = "C08"
LEVEL = "model_checking"
RULE = (
    "run: devices x drive {field, current, both} x screening x unit system in {nm/uT/nA, mm/T/mA} paired with um/mT/uA (equality is transitive: all pairs decided), every recorded step compared; "
    "flux: every triangle of every mesh x B in {+-0.05, 1, 37.5} x (length unit, field unit) in 3x3. Non-trivial = non-zero drive; distinct = case parameters."
)
STATE_DEF = "run: (pair, step label) compared; flux: (mesh, units, B) tuples; transitions = triangles checked + updates of paired runs"
ASSUMPTIONS = [
    "the three restatements share one dimensionless Mesh object (meshing per unit system is C07's subject)",
    "SI constants from scipy.constants (the library takes them from pint; they agree to 3e-13 here)",
]
TOLERANCES = {"run": 1e-8, "run_screening": 1e-5, "si": 1e-9, "flux": 1e-9}
LU = {"um": 1e-6, "nm": 1e-9, "mm": 1e-3}
FU = {"mT": 1e-3, "uT": 1e-6, "T": 1.0}
SYS = {"um": ("um", "mT", "uA"), "nm": ("nm", "uT", "nA"), "mm": ("mm", "T", "mA"),
       # mismatched prefixes (current_units / length_units is not 1 A/m)
       "nm_uA": ("nm", "uT", "uA"), "um_nA": ("um", "mT", "nA"), "mm_uA": ("mm", "T", "uA")}
MULT = {"um": 1.0, "nm": 1e3, "mm": 1e-3, "mT": 1.0, "uT": 1e3, "T": 1e-3, "uA": 1.0, "nA": 1e3, "mA": 1e-3}
TERMS = {"G1": ["source", "drain"], "G2": ["source", "drain"], "G3": ["left", "right", "stem"]}


def bound(tier):
    return {
        "quick": "run: {G1,G3} x 3 drives x screening off x 2 restatements + screening on for G1/both; flux: 4 meshes x 9 unit pairs x 4 fields, all triangles",
        "thorough": "run: {G1,G2,G3} x 3 drives x screening {off,on} x 2 restatements; flux: 9 meshes x 9 unit pairs x 4 fields, all triangles + time-dependent field",
    }[tier]


def floors(tier):
    return {"distinct_nontrivial": 20, "states": 100, "count:triangles_checked": 5000, "count:run_frames_compared": 60}


def cases(tier, seed):
    quick = tier == "quick"
    out = []
    devs = ["G1", "G3"] if quick else ["G1", "G2", "G3"]
    for d, drive, scr, u in itertools.product(devs, ("field", "current", "both"), (False,) if quick else (False, True), ("nm", "mm")):
        out.append(dict(fam="run", dev=d, drive=drive, screening=scr, units=u))
    # time-dependent fields (slow: 0.3 % per step, fast: 8 % per step) and callable currents, stated in each unit system
    for d, drive, u in itertools.product(devs[:1] if quick else devs, ("ramp_slow", "ramp_fast", "callable_current"), ("nm", "mm")):
        out.append(dict(fam="run", dev=d, drive=drive, screening=False, units=u))
    # ... and together with screening (the two features share set-up code)
    for d, drive, u in itertools.product(devs[:1] if quick else devs, ("ramp_slow", "callable_current"), ("nm", "mm")):
        out.append(dict(fam="run", dev=d, drive=drive, screening=True, units=u))
    if quick:
        for u in ("nm", "mm"):
            out.append(dict(fam="run", dev="G1", drive="both", screening=True, units=u))
    # unit systems with mismatched prefixes
    for d, drive, u in itertools.product(devs[:1] if quick else devs, ("both", "loop"), ("nm_uA", "um_nA", "mm_uA")):
        out.append(dict(fam="run", dev=d, drive=drive, screening=False, units=u))
    # a z-dependent source and a film away from z = 0
    for d, drive, u in itertools.product(devs[:1] if quick else devs, ("loop", "loop_t", "loop_moved"), ("nm", "mm")):
        out.append(dict(fam="run", dev=d, drive=drive, screening=False, units=u))
    # thermalisation first (the recorded stage restarts step counter and clock on the same solver)
    for d, drive, u in itertools.product(devs[:1] if quick else devs, ("ramp_fast", "callable_current"), ("nm", "mm")):
        out.append(dict(fam="run", dev=d, drive=drive, screening=False, units=u, thermal=True))
    meshes = ["G1", "G2", "G5", "G7"] if quick else ["G1", "G2", "G3", "G4", "G5", "G6", "G7", "G1f", "G5f"]
    for m, lu, fu in itertools.product(meshes, LU, FU):
        out.append(dict(fam="flux", mesh=m, lu=lu, fu=fu))
    return out


def _problem(dev_name, drive, units, screening):
    """(device, solve kwargs) of the same physical problem stated in `units`"""
    import tdgl

    from .. import zoo

    lam = 1.0 if screening else 2.0
    ref = zoo.device(dev_name, lam=lam)
    lu, fu, cu = SYS[units]
    dev = ref if lu == "um" else zoo.with_mesh_of(ref, dev_name, lu, lam=lam)
    sl, sf, sc = MULT[lu], MULT[fu], MULT[cu]  # value multipliers of lengths, fields and currents
    kw = {}
    if drive in ("ramp_slow", "ramp_fast"):
        # coordinates arrive in the device's length units, the result is in field_units * length_units
        kw["applied_vector_potential"] = tdgl.Parameter(_ramp_field, time_dependent=True, B=0.4 * sf, rate=(0.2 if drive == "ramp_slow" else 5.0))
    if drive == "callable_current":
        names = TERMS[dev_name]
        base = {2: [0.8, -0.8], 3: [0.3, 0.5, -0.8]}[len(names)]
        kw["applied_vector_potential"] = 0.2 * sf
        kw["terminal_currents"] = _CurrentRamp(names, [b * sc for b in base])
    if drive in ("loop", "loop_t", "loop_moved"):
        # a z-dependent source (current loop above the film) and a film that does not sit at z = 0: heights are lengths too
        from tdgl.sources import CurrentLoop, LinearRamp

        dev = dev.copy()
        dev.layer.z0 = 0.4 * sl
        loop = CurrentLoop(current=4000.0 * sc, radius=1.5 * sl, center=(0.3 * sl, -0.2 * sl, 1.0 * sl), current_units=cu, field_units=fu, length_units=lu)
        kw["applied_vector_potential"] = loop if drive != "loop_t" else LinearRamp(tmin=0.0, tmax=0.1, initial=0.5, final=1.0) * loop
        if drive == "loop_moved":
            # the meshed device is moved in place (a displacement is a length too) under a source that stays where it is
            dev.translate(dx=1.2 * sl, dy=-0.7 * sl, inplace=True)
    if drive in ("field", "both"):
        kw["applied_vector_potential"] = 0.4 * sf
    if drive in ("current", "both"):
        names = TERMS[dev_name]
        base = {2: [0.8, -0.8], 3: [0.3, 0.5, -0.8]}[len(names)]
        kw["terminal_currents"] = {n: b * sc for n, b in zip(names, base)}
    return dev, kw, (lu, fu, cu)


def _ramp_field(x, y, z, *, t, B, rate):
    b = B * (1.0 + rate * t)
    return np.stack([-b * y / 2, b * x / 2, np.zeros_like(x)], axis=1)


class _CurrentRamp:
    def __init__(self, names, base):
        self.names, self.base = names, base

    def __call__(self, t):
        return {n: b * (0.5 + 2.0 * t) for n, b in zip(self.names, self.base)}


def run_run(case):
    import tdgl

    from .. import drivers

    res = CaseResult()
    res.key = case_key(case)
    dt = 2.0**-6
    nsteps = 8
    out = {}
    refused = {}
    fields = {}
    for tag, units in (("a", "um"), ("b", case["units"])):
        dev, kw, (lu, fu, cu) = _problem(case["dev"], case["drive"], units, case["screening"])
        opts = tdgl.SolverOptions(solve_time=nsteps * dt, dt_init=dt, dt_max=dt, adaptive=False, save_every=1, output_file=f"{tag}.h5",
                                  field_units=fu, current_units=cu, include_screening=case["screening"], screening_tolerance=1e-7,
                                  max_iterations_per_step=5000, progress_interval=10**9, skip_time=(3 * dt if case.get("thermal") else 0.0))
        refused[tag] = None
        try:
            sol = tdgl.solve(dev, opts, **kw)
        except RuntimeError as exc:
            if "converge" not in str(exc):
                raise
            refused[tag] = str(exc)[:120]
            frames, _ = drivers.read_frames(f"{tag}.h5")
            out[tag] = (dev, frames, None, (lu, fu, cu))
            continue
        frames, _ = drivers.read_frames(f"{tag}.h5")
        # physical current density in A/m at every recorded step, through the public Solution API
        K = []
        for i in range(len(frames)):
            sol.solve_step = i
            K.append(sol.current_density.to("A / m").magnitude)
        # ... then the field of the sheet currents above the film (evaluated twice), and the current density read again afterwards
        sol.solve_step = len(frames) - 1
        P = np.array([[0.4, -0.3, 0.9], [-1.1, 0.6, 1.4], [2.0, 0.2, -0.8]]) * MULT[lu]
        Bz1 = sol.field_at_position(P, vector=True, units="T", with_units=False)
        Bz2 = sol.field_at_position(P, vector=True, units="T", with_units=False)
        K.append(sol.current_density.to("A / m").magnitude)
        fields[tag] = (np.asarray(Bz1, float), np.asarray(Bz2, float))
        out[tag] = (dev, frames, K, (lu, fu, cu))
    if refused["a"] or refused["b"]:
        # the documented refusal must not depend on the unit system either: same step in both statements
        na, nb = len(out["a"][1]), len(out["b"][1])
        if bool(refused["a"]) != bool(refused["b"]) or na != nb:
            res.violate("refusal-depends-on-units", drive=case["drive"], screening=case["screening"], units=case["units"],
                        detail={"case": case, "um": refused["a"], "other": refused["b"], "frames": [na, nb]})
        res.count("pair_refused")
        res.nontrivial = True
        res.outcome = "refused"
        return res
    deva, fa, Ka, _ = out["a"]
    devb, fb, Kb, (lu, fu, cu) = out["b"]
    worst = compare_frames(fa, fb, deva.mesh.areas)
    for k, v in worst.items():
        res.residual("run_" + k, v)
    tol_run = TOLERANCES["run_screening"] if case["screening"] else TOLERANCES["run"]  # screening: fixed point iterated to 1e-7 only
    bad = {k: v for k, v in worst.items() if v > tol_run}
    if bad:
        res.violate("solution-depends-on-units", fields=",".join(sorted(bad)), drive=case["drive"], screening=case["screening"], units=case["units"],
                    detail={"case": case, "worst": worst})
    # physical outputs
    kmax = max(max(float(np.abs(k).max()) for k in Ka), 1e-300)
    e_phys = max(float(np.abs(a - b).max()) for a, b in zip(Ka, Kb)) / kmax
    res.residual("current_density_between_systems", e_phys)
    if e_phys > tol_run:
        res.violate("physical-current-density-depends-on-units", drive=case["drive"], units=case["units"], detail={"case": case, "rel": e_phys})
    if "a" in fields and "b" in fields:
        bmax = max(float(np.abs(fields["a"][0]).max()), 1e-300)
        e_rep = max(float(np.abs(fields[t][0] - fields[t][1]).max()) for t in ("a", "b")) / bmax
        e_sys = float(np.abs(fields["a"][0] - fields["b"][0]).max()) / bmax
        res.residual("field_between_systems", e_sys)
        if e_rep > 1e-12:
            res.violate("field-evaluation-not-repeatable", units=case["units"], detail={"case": case, "rel": e_rep})
        if e_sys > tol_run:
            res.violate("physical-field-depends-on-units", drive=case["drive"], units=case["units"], detail={"case": case, "rel": e_sys})
    # ... and against the SI unit model, in the restated system
    L = devb.layer
    U = Units(L.coherence_length, L.london_lambda, L.thickness, lu, fu, cu)
    rm = RawMesh.from_mesh(devb.mesh)
    deg = np.bincount(rm.edges.ravel(), minlength=rm.n).astype(float)
    unit = rm.vec / rm.e[:, None]
    e_si = 0.0
    for fr, Kobs in zip(fb, Kb):
        F = np.asarray(fr["data"]["supercurrent"]) + np.asarray(fr["data"]["normal_current"])
        acc = np.zeros((rm.n, 2))
        for col in (0, 1):
            np.add.at(acc, (rm.edges[:, col], slice(None)), F[:, None] * unit)
        Kref = U.Ku * 2.0 * acc / deg[:, None]
        e_si = max(e_si, float(np.abs(Kref - Kobs).max()) / kmax)
    res.residual("current_density_vs_SI", e_si)
    if e_si > TOLERANCES["si"] and kmax > 1e-200:
        res.violate("physical-current-density-not-SI", units=case["units"], detail={"case": case, "rel": e_si})
    res.count("run_frames_compared", len(fa))
    res.states.update(f"{res.key}:{int(fr['attrs']['step'])}" for fr in fa)
    res.transitions = 2 * nsteps
    res.executions = 2
    res.nontrivial = True
    res.outcome = f"run;{case['drive']};scr={case['screening']}"
    return res


def _tramp(x, y, z, *, t, B=1.0):
    s = B * (0.25 + t)
    return np.stack([-s * y / 2, s * x / 2, np.zeros_like(x)], axis=1)


def run_flux(case):
    import tdgl

    from .. import zoo

    res = CaseResult()
    res.key = case_key(case)
    name = case["mesh"]
    dens = "fine" if name.endswith("f") else "coarse"
    base = zoo.device(name.rstrip("f"), density=dens)
    lu, fu = case["lu"], case["fu"]
    dev = base if lu == "um" else zoo.with_mesh_of(base, name.rstrip("f"), lu)
    mesh = dev.mesh
    xi_si = dev.layer.coherence_length * LU[lu]
    em = mesh.edge_mesh
    # edge lookup
    eidx = {tuple(e): k for k, e in enumerate(map(tuple, em.edges))}
    tri = mesh.elements
    p = mesh.sites[tri]
    area = 0.5 * ((p[:, 1, 0] - p[:, 0, 0]) * (p[:, 2, 1] - p[:, 0, 1]) - (p[:, 1, 1] - p[:, 0, 1]) * (p[:, 2, 0] - p[:, 0, 0]))
    res.executions = 0
    for B in (0.05, -0.05, 1.0, 37.5):
        opts = tdgl.SolverOptions(solve_time=1.0, field_units=fu, progress_interval=10**9)
        solver = tdgl.TDGLSolver(dev, opts, applied_vector_potential=B)
        Ad = np.einsum("ij,ij->i", np.asarray(solver.current_A_applied), em.directions)
        circ = np.zeros(len(tri))
        for a, b in ((0, 1), (1, 2), (2, 0)):
            i, j = tri[:, a], tri[:, b]
            for t in range(len(tri)):
                lo, hi = (i[t], j[t]) if i[t] < j[t] else (j[t], i[t])
                k = eidx[(lo, hi)]
                circ[t] += Ad[k] if (em.edges[k, 0] == i[t]) else -Ad[k]
        want = 2 * np.pi * (B * FU[fu]) * (area * xi_si**2) / PHI0
        err = float(np.abs(circ - want).max() / max(np.abs(want).max(), 1e-300))
        res.residual("flux", err)
        res.count("triangles_checked", len(tri))
        res.transitions += len(tri)
        res.executions += 1
        res.states.add(f"{name}/{lu}/{fu}/{B}")
        if err > TOLERANCES["flux"]:
            res.violate("triangle-phase-is-not-flux", lu=lu, fu=fu, detail={"mesh": name, "B": B, "rel": err,
                                                                           "ratio": float(np.median(circ / want))})
    # time-dependent parameter through the documented update method, for every combination of solver features that
    # share the constructor's set-up code (screening, adaptivity)
    A = tdgl.Parameter(_tramp, time_dependent=True, B=0.7)
    for scr, t in itertools.product((False, True), (0.0, 0.5)):
        opts = tdgl.SolverOptions(solve_time=1.0, field_units=fu, progress_interval=10**9, include_screening=scr, adaptive=not scr)
        solver = tdgl.TDGLSolver(dev, opts, applied_vector_potential=A)
        At = solver.current_A_applied if t == 0.0 else solver.update_applied_vector_potential(t)
        Ad = np.einsum("ij,ij->i", np.asarray(At), em.directions)
        # compare with the same quantity for the constant field of equal strength
        s2 = tdgl.TDGLSolver(dev, tdgl.SolverOptions(solve_time=1.0, field_units=fu, progress_interval=10**9), applied_vector_potential=0.7 * (0.25 + t))
        Ad2 = np.einsum("ij,ij->i", np.asarray(s2.current_A_applied), em.directions)
        # the two differ by a constant gauge vector (ConstantField recentres); compare circulations around triangle 0..n
        # through the curl: sum over a triangle
        def circ_of(Adx):
            c = np.zeros(len(tri))
            for a, b in ((0, 1), (1, 2), (2, 0)):
                i, j = tri[:, a], tri[:, b]
                for q in range(len(tri)):
                    lo, hi = (i[q], j[q]) if i[q] < j[q] else (j[q], i[q])
                    k = eidx[(lo, hi)]
                    c[q] += Adx[k] if (em.edges[k, 0] == i[q]) else -Adx[k]
            return c
        c1, c2 = circ_of(Ad), circ_of(Ad2)
        err = float(np.abs(c1 - c2).max() / max(np.abs(c2).max(), 1e-300))
        res.residual("flux_time_dependent", err)
        if err > TOLERANCES["flux"]:
            res.violate("time-dependent-field-scaled-differently", lu=lu, fu=fu, detail={"mesh": name, "t": t, "rel": err})
    res.nontrivial = True
    res.outcome = "flux"
    return res


def run_case(case):
    return run_run(case) if case["fam"] == "run" else run_flux(case)
