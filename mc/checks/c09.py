"""C09 - simulations are deterministic and reproducible bit for bit.

sweep  : configurations x fresh processes (hash seed, working directory / output location) x thread counts of the
         parallel kernels; the sha256 digest of meshes, every dataset, step/time/dt attributes and per-step records
         must coincide for one configuration across all of them (timestamps excluded by name).
session: explicit-state exploration of *histories inside one process*: every sequence (depth-bounded) over an alphabet of 20
         legitimate uses of the public API that leave the logical inputs unchanged (other solves on the same device / options /
         parameter objects, moved or re-meshed copies, post-processing, saving and loading, pickling, queries, a refused and an
         aborted solve, another thread count) is executed in a fresh process, then two reference simulations are run on the objects
         that lived through the history; their digests (output files, post-processed fields, the inputs themselves) must equal
         those of the empty history.
kernel : E5 exploration of all interleavings (preemption-bounded) of every numba `prange` body on its Python source:
         every schedule gives the sequential result, loop iterations are pairwise conflict-free (which makes all
         interleavings equivalent), np.empty buffers are fully written, no scalar is carried across iterations;
         plus the compiled kernels at every thread count against the sequential Python source.
"""
from __future__ import annotations

import itertools
import json
import os
import subprocess
import sys

import numpy as np

from ..core import REPO, VERIF, CaseResult, case_key

ID = "C09"
LEVEL = "model_checking"
WORKERS = 8
NUMBA_THREADS = 16
RULE = (
    "sweep: configs {plain, screening, adaptive, time-dependent A, callable currents, hole+terminals, four terminals with decimal currents} x fresh processes "
    "(PYTHONHASHSEED x output location) x thread counts; kernel: 8 prange kernels x tiny shapes x 2-3 virtual threads, all schedules with <= b preemptions. "
    "Non-trivial = at least two digests / schedules compared; distinct = case parameters."
)
STATE_DEF = "kernel: per-thread progress vectors reached by the scheduler; sweep: (config, process, thread count) runs; transitions = scheduling steps + runs"
ASSUMPTIONS = [
    "native numba threads cannot be scheduled: interleavings are explored on the kernels' Python source (the function object numba compiled, .py_func); "
    "pairwise independence of iterations makes all interleavings equivalent, and the compiled code is exercised by the thread-count sweep",
    "timestamp, time_created, total_seconds, version_info and the output_file option are excluded from digests by name",
]


def bound(tier):
    return {
        "quick": "session: 19 single operations + 36 core pairs, fresh process each; sweep: 6 configs x 3 fresh processes x thread counts {1,2,5,16}; kernel: 8 kernels, 2 virtual threads, preemption bound 1 (+ bound 2 on the screening kernel), compiled kernels at {1,2,3,5,16} threads",
        "thorough": "session: 19 + 361 pairs + 216 core triples; sweep: 6 configs x 9 fresh processes x thread counts 1..16; kernel: 2 and 3 virtual threads, preemption bound 2, compiled kernels at 1..16 threads",
    }[tier]


def floors(tier):
    return {"distinct_nontrivial": 10, "states": 100, "count:schedules": 500, "count:digests": 60, "count:session_histories": 60}


CONFIGS = ["plain", "screening", "adaptive", "tdep", "callable_currents", "hole_terminals", "four_terminals", "seeded_twice", "eps_tdep"]
KERNELS = ["A_induced", "sq2d", "sq3d", "eu2d", "eu3d", "bs1d", "bs2dz", "bs2dv"]


def cost(case):
    return {"sweep": 20, "kernel": 3, "compiled": 1, "session": 30}[case["fam"]]


def session_histories(tier):
    from ..c09_session import CORE, MID, OPS

    hs = [[a] for a in OPS] + [["mid:" + a] for a in MID]
    if tier != "quick":
        hs += [[a, "mid:" + b] for a in CORE for b in MID]
    if tier == "quick":
        hs += [[a, b] for a in CORE for b in CORE]
    else:
        hs += [[a, b] for a in OPS for b in OPS]
        hs += [[a, b, c] for a in CORE for b in CORE for c in CORE]
    return hs


def cases(tier, seed):
    out = []
    for c in CONFIGS:
        out.append(dict(fam="sweep", config=c, tier=tier))
    for k in KERNELS:
        for nt in (2,) if tier == "quick" else (2, 3):
            b = 2 if (tier == "thorough" or k == "A_induced") else 1
            out.append(dict(fam="kernel", kernel=k, nthreads=nt, bound=b))
        out.append(dict(fam="compiled", kernel=k, tier=tier, seed=seed))
    hs = session_histories(tier)
    per = 7 if tier == "quick" else 12
    for i in range(0, len(hs), per):
        out.append(dict(fam="session", histories=hs[i:i + per]))
    return out


# ---------------------------------------------------------------------------------------------
def run_sweep(case):
    res = CaseResult()
    res.key = case_key(case)
    quick = case["tier"] == "quick"
    threads = [1, 2, 5, 16] if quick else list(range(1, 17))
    if quick:
        procs = [("0", "temp"), ("1", "explicit"), ("random", "relative")]
    else:
        procs = list(itertools.product(("0", "1", "random"), ("temp", "explicit", "relative")))
    if case["config"] == "four_terminals":
        # this configuration targets dict / set iteration order: many hash seeds, few thread counts
        procs = [(str(h), "explicit") for h in range(8 if quick else 24)] + [("random", "relative")]
        threads = [1, 3]
    # processes with a history: another configuration ran in the same process first ("independent of the process")
    PRIOR = {"plain": "tdep", "screening": "callable_currents", "adaptive": "screening", "tdep": "adaptive", "callable_currents": "tdep",
             "hole_terminals": "screening", "four_terminals": "callable_currents"}
    procs = [(hs, loc, None) for hs, loc in procs] + [("0", "explicit", PRIOR.get(case["config"], "tdep"))]
    children = []
    base = os.getcwd()
    for i, (hs, loc, prior) in enumerate(procs):
        wd = os.path.join(base, f"proc{i}")
        os.makedirs(wd)
        env = dict(os.environ)
        env.pop("C09_PRIOR", None)
        if prior:
            env["C09_PRIOR"] = prior
            hs = hs + "+after-" + prior
        env.update(PYTHONHASHSEED=hs.split("+")[0], NUMBA_NUM_THREADS="16", VERIF_REPO=REPO, VERIF_HOME=str(VERIF), TQDM_DISABLE="1", MPLBACKEND="Agg")
        env["PYTHONPATH"] = f"{REPO}:{VERIF}"
        p = subprocess.Popen([sys.executable, str(VERIF / "mc" / "c09_child.py"), case["config"], loc, ",".join(map(str, threads))],
                             cwd=wd, env=env, stdout=subprocess.PIPE, stderr=subprocess.PIPE, text=True)
        children.append((hs, loc, p))
    digests = {}
    for hs, loc, p in children:
        out, err = p.communicate(timeout=1500)
        line = [l for l in out.splitlines() if l.startswith("C09DIGEST ")]
        if p.returncode != 0 or not line:
            raise RuntimeError(f"child failed rc={p.returncode}: {err[-1500:]}")
        d = json.loads(line[-1][len("C09DIGEST "):])
        for k, v in d.items():
            digests[(hs, loc, int(k))] = v
            res.states.add(f"{case['config']}/{hs}/{loc}/{k}")
            res.transitions += 1
            res.count("digests")
    rep = sorted(k for k, v in digests.items() if "repeat-differs" in v)
    if rep:
        res.violate("repeated-run-in-one-process-differs", config=case["config"], detail={"where": [list(k) for k in rep[:6]]})
    # memory-only runs expose less: compare within kind
    for kind in ("file", "mem"):
        sub = {k: v for k, v in digests.items() if v.startswith(kind)}
        vals = set(sub.values())
        if len(vals) > 1:
            ref = sorted(sub.items())[0]
            diff = [k for k, v in sub.items() if v != ref[1]]
            by_thread = len({v for (hs, loc, k), v in sub.items() if (hs, loc) == ref[0][:2]}) > 1
            by_process = len({v for (hs, loc, k), v in sub.items() if k == ref[0][2]}) > 1
            res.violate("digests-differ", config=case["config"], across_thread_counts=by_thread, across_processes=by_process,
                        detail={"n_distinct": len(vals), "reference": list(ref[0]), "differing": [list(d) for d in diff[:8]]})
    res.executions = len(digests)
    res.nontrivial = len(digests) >= 2
    res.outcome = f"sweep;{case['config']}"
    return res


# ---------------------------------------------------------------------------------------------
def kernel_and_args(name, seed=0, scale=1):
    from tdgl import distance, em
    from tdgl.solver import screening

    rng = np.random.default_rng([seed, 909])
    n, m = 2 * scale, 2 * scale + (1 if scale == 1 else 0)
    if name == "A_induced":
        return screening.get_A_induced_numba, [rng.normal(size=(n, 2)), rng.random(n) + 0.5, rng.random((n, 2)), rng.random((m, 2)) + 2.0, np.full((m, 2), np.nan)], "arg4"
    if name in ("sq2d", "eu2d", "sq3d", "eu3d"):
        d = 2 if name.endswith("2d") else 3
        f = {"sq2d": distance.sqeuclidean_distance_2d, "sq3d": distance.sqeuclidean_distance_3d, "eu2d": distance.euclidean_distance_2d, "eu3d": distance.euclidean_distance_3d}[name]
        return f, [rng.random((m, d)), rng.random((n, d)) + 1.5], ("empty", 0)
    if name == "bs1d":
        return em._biot_savart_1d_vector, [rng.random((m, 3)) + 2.0, rng.random((n, 3)), rng.normal(size=(n, 3)), rng.normal(size=n)], ("zeros", 0)
    f = em._biot_savart_2d_z if name == "bs2dz" else em._biot_savart_2d_vector
    pos = np.column_stack([rng.random((n, 2)), np.zeros(n)])
    return f, [np.column_stack([rng.random((m, 2)), np.full(m, 1.3)]), pos, rng.normal(size=(n, 2)), rng.random(n) + 0.5], ("empty", 0)


def sequential(disp, args, outkey):
    a2 = [a.copy() if isinstance(a, np.ndarray) else a for a in args]
    import numba as _nb

    py = disp.py_func
    out = py(*a2)
    if isinstance(outkey, str):
        return a2[int(outkey[3:])]
    return np.asarray(out)


def run_kernel(case):
    from .. import interleave as IL

    res = CaseResult()
    res.key = case_key(case)
    disp, args, outkey = kernel_and_args(case["kernel"])
    want = sequential(disp, args, outkey)
    carried, nloops = IL.loop_carried_scalars(disp.py_func)
    if nloops != 1:
        res.violate("kernel-structure-unexpected", kernel=case["kernel"], detail={"prange_loops": nloops})
    if carried:
        res.violate("scalar-carried-across-parallel-iterations", kernel=case["kernel"], detail={"names": carried})
    make = IL.make_kernel_harness(disp, args, case["nthreads"])
    seen_out = set()

    def check(x):
        if x.error is not None:
            res.violate("kernel-raises-under-schedule", kernel=case["kernel"], detail={"error": repr(x.error), "choices": x.choices})
            return
        key = outkey if isinstance(outkey, str) else outkey
        got = x.outcome[key]
        seen_out.add(got.tobytes())
        if np.isnan(got).any():
            res.violate("output-buffer-not-fully-written", kernel=case["kernel"], detail={"choices": x.choices[:60]})
        elif not np.array_equal(got, want):
            res.violate("schedule-changes-result", kernel=case["kernel"], detail={"choices": x.choices[:80], "max_abs_diff": float(np.abs(got - want).max())})
        bad = IL.conflicts(x.log)
        if bad:
            res.violate("iterations-not-independent", kernel=case["kernel"], detail={"conflicts": [(str(k), v) for k, v in bad[:5]]})
        for k, a in enumerate(args):
            if isinstance(a, np.ndarray) and f"arg{k}" != outkey and not np.array_equal(x.outcome[f"arg{k}"], a, equal_nan=True):
                res.violate("kernel-writes-to-an-input", kernel=case["kernel"], detail={"arg": k})

    stats = IL.explore(make, case["bound"], check, max_executions=60000)
    if stats["capped"]:
        res.violate("exploration-capped", kernel=case["kernel"])
    res.count("schedules", stats["executions"])
    res.executions = stats["executions"]
    res.transitions = stats["points"]
    res.states.update(f"{case['kernel']}/{case['nthreads']}/{i}" for i in range(stats["states"]))
    res.count("distinct_outcomes_" + case["kernel"], len(seen_out))
    res.nontrivial = stats["executions"] >= 2
    res.outcome = f"kernel;{case['kernel']};outcomes={len(seen_out)}"
    return res


def run_compiled(case):
    import numba

    res = CaseResult()
    res.key = case_key(case)
    threads = [1, 2, 3, 5, 16] if case["tier"] == "quick" else list(range(1, 17))
    for scale in (1, 4, 13, 32):
        disp, args, outkey = kernel_and_args(case["kernel"], seed=case["seed"], scale=scale)
        ref = None
        for k in threads:
            numba.set_num_threads(k)
            a2 = [a.copy() if isinstance(a, np.ndarray) else a for a in args]
            out = disp(*a2)
            got = a2[int(outkey[3:])] if isinstance(outkey, str) else np.asarray(out)
            res.transitions += 1
            res.states.add(f"compiled/{case['kernel']}/{scale}/{k}")
            res.count("digests")
            if np.isnan(got).any():
                res.violate("output-buffer-not-fully-written", kernel=case["kernel"], detail={"threads": k, "compiled": True})
            if ref is None:
                ref = got.copy()
            elif not np.array_equal(got, ref):
                res.violate("thread-count-changes-kernel-result", kernel=case["kernel"], detail={"threads": k, "scale": scale, "max_abs_diff": float(np.abs(got - ref).max())})
        # fastmath may reassociate, so the compiled code is compared with the Python source up to rounding only
        want = sequential(disp, args, outkey)
        err = float(np.abs(ref - want).max() / max(np.abs(want).max(), 1e-300))
        res.residual("compiled_vs_source", err)
        if err > 1e-12:
            res.violate("compiled-kernel-differs-from-source", kernel=case["kernel"], detail={"rel": err})
    numba.set_num_threads(1)
    res.executions = res.transitions
    res.nontrivial = True
    res.outcome = f"compiled;{case['kernel']}"
    return res


def run_session(case):
    """One fresh process per history (plus one for the empty history); digests of the reference runs must coincide."""
    res = CaseResult()
    res.key = case_key(case)
    base = os.getcwd()
    hists = [[]] + [list(h) for h in case["histories"]]
    env = dict(os.environ)
    env.update(PYTHONHASHSEED="0", NUMBA_NUM_THREADS="16", VERIF_REPO=REPO, VERIF_HOME=str(VERIF), TQDM_DISABLE="1", MPLBACKEND="Agg")
    env["PYTHONPATH"] = f"{REPO}:{VERIF}"
    results = {}
    pending = list(enumerate(hists))
    running = []
    conc = 2

    def harvest(i, h, p):
        out, err = p.communicate(timeout=1500)
        line = [l for l in out.splitlines() if l.startswith("C09SESSION ")]
        if p.returncode != 0 or not line:
            raise RuntimeError(f"session child failed rc={p.returncode} history={h}: {err[-1500:]}")
        results[i] = json.loads(line[-1][len("C09SESSION "):])

    while pending or running:
        while pending and len(running) < conc:
            i, h = pending.pop(0)
            wd = os.path.join(base, f"s{i}")
            os.makedirs(wd)
            p = subprocess.Popen([sys.executable, str(VERIF / "mc" / "c09_session.py"), json.dumps(h)], cwd=wd, env=env,
                                 stdout=subprocess.PIPE, stderr=subprocess.PIPE, text=True)
            running.append((i, h, p))
        i, h, p = running.pop(0)
        harvest(i, h, p)
    ref = results[0]
    if "error" in ref:
        raise RuntimeError(f"the reference simulations fail in a pristine process: {ref['error']}")
    for i, h in enumerate(hists):
        if i == 0:
            continue
        r = results[i]
        res.states.add("session/" + ">".join(h))
        res.transitions += len(h) + 1
        res.count("digests", len(r))
        res.count("session_histories")
        if "error" in r:
            res.violate("operation-fails-after-history", failing=r["error"].split(":")[0], history=h, detail={"error": r["error"], "traceback": r.get("tb", "")})
            continue
        diff = sorted(k for k in ref if r.get(k) != ref[k])
        if diff:
            res.violate("result-depends-on-what-ran-before-in-the-process", history=h, differing=diff)
    res.executions = len(hists)
    res.nontrivial = True
    res.outcome = "session"
    return res


def run_case(case):
    return {"sweep": run_sweep, "kernel": run_kernel, "compiled": run_compiled, "session": run_session}[case["fam"]](case)
