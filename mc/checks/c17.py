"""C17 - the uniform superconducting state is exactly stationary.

Finite product of (mesh, gamma, u, adaptive, dt_max, screening); the invariant psi=1, mu=0, J=0 is
evaluated on every recorded step of every run, and with adaptivity on the time step must reach
dt_max and stay there.
"""
from __future__ import annotations

import itertools

import numpy as np

from ..core import CaseResult, case_key
from ..ref.physics import RawMesh

ID = "C17"
LEVEL = "model_checking"
RULE = (
    "meshes (irregular, smoothed, holes, unbiased unpinned terminals) x (gamma,u) in {(10,5.79),(0,1),(0,5.79),(1,1),(100,0.5)} x adaptive {off,on} "
    "x dt_max {1e-2,1e-1} (x screening); undriven run to t=5; every recorded step is a state on which |psi-1|, |mu|, |Js|, |Jn| <= 1e-9 is evaluated. "
    "Non-trivial = more than 3 recorded steps; distinct = case parameters."
)
STATE_DEF = "recorded steps (case, step label); transitions = solver updates"
ASSUMPTIONS = [
    "terminals are left unpinned (terminal_psi=None) and unbiased, as the statement says; a sub-family holds them at the bulk value terminal_psi = 1, which is the uniform state too",
    "the oracle computes the explicit-Euler number S = dt * lambda_max(-L) * sqrt(1+gamma^2) / u from the raw mesh; "
    "departures with S > 2 are the recorded known finding (rounding amplified by an unstable explicit step), departures with S <= 2 are violations",
]
TOLERANCES = {"quiet": 1e-9}
GU = [(10.0, 5.79), (0.0, 1.0), (0.0, 5.79), (1.0, 1.0), (100.0, 0.5), (1e-4, 5.79), (1e-3, 1.0), (3e-2, 5.79)]


def bound(tier):
    return {
        "quick": "5 meshes x 5 (gamma,u) x adaptive {off,on} x dt_max {1e-2,1e-1}; screening on for 2 meshes x 2 (gamma,u)",
        "thorough": "11 meshes (2 densities, smoothing) x 5 (gamma,u) x adaptive x dt_max {1e-2,1e-1} x screening {off,on}",
    }[tier]


def floors(tier):
    return {"distinct_nontrivial": 80, "states": 500, "count:stable_regime_runs": 40, "count:reached_dt_max": 20}


def cases(tier, seed):
    quick = tier == "quick"
    meshes = [("G1", "coarse", 0), ("G2", "coarse", 0), ("G3", "coarse", 3), ("G5", "coarse", 0), ("G7", "coarse", 0)]
    if not quick:
        meshes += [("G4", "coarse", 0), ("G6", "coarse", 3), ("G1", "fine", 0), ("G2", "fine", 3), ("G5", "fine", 0), ("G3", "fine", 0)]
    out = []
    for (m, dens, sm), (g, u), ad, dtm in itertools.product(meshes, GU, (False, True), (1e-2, 1e-1)):
        out.append(dict(dev=m, dens=dens, smooth=sm, gamma=g, u=u, adaptive=ad, dt_max=dtm, screening=False))
    # histories: the quiet run is not the first thing that happens to the device / mesh object
    for (m, dens, sm), prior in itertools.product(meshes[:3] if quick else meshes[:6], ("pinned_driven_solve", "driven_solver_alive", "quiet_twice", "screened_driven_solve")):
        out.append(dict(dev=m, dens=dens, smooth=sm, gamma=10.0, u=5.79, adaptive=True, dt_max=1e-2, screening=False, prior=prior))
    # one options object re-used for two solves, edited in between
    for (m, dens, sm), prior in itertools.product(meshes[:2] if quick else meshes[:6], ("same_options_fixed_first", "same_options_larger_dt_max_first")):
        out.append(dict(dev=m, dens=dens, smooth=sm, gamma=10.0, u=5.79, adaptive=True, dt_max=1e-2, screening=False, prior=prior))
    # the quiet run continues a quiet run that was allowed ten times longer steps (and ended with them)
    for (m, dens, sm), ad in itertools.product(meshes[:3] if quick else meshes[:6], (True, False)):
        out.append(dict(dev=m, dens=dens, smooth=sm, gamma=10.0, u=5.79, adaptive=ad, dt_max=1e-2, screening=False, prior="seeded_from_longer_steps"))
    for (m, dens, sm) in meshes[:2] if quick else meshes[:6]:
        out.append(dict(dev=m, dens=dens, smooth=sm, gamma=0.0, u=1.0, adaptive=True, dt_max=1e-2, screening=False, prior="seeded_from_longer_steps"))
    # ... and the quiet run itself is a screening run (the induced potential must stay identically zero whatever ran before)
    for (m, dens, sm), prior in itertools.product(meshes[:2] if quick else meshes[:6], ("screened_driven_solve", "quiet_twice")):
        out.append(dict(dev=m, dens=dens, smooth=sm, gamma=10.0, u=5.79, adaptive=True, dt_max=1e-2, screening=True, prior=prior))
    # thermalisation first (two stages on one solver: the recorded stage must start and stay in the uniform state)
    for (m, dens, sm), ad in itertools.product(meshes[:3] if quick else meshes, (False, True)):
        out.append(dict(dev=m, dens=dens, smooth=sm, gamma=10.0, u=5.79, adaptive=ad, dt_max=1e-2, screening=False, thermal=True))
    # the unbiased terminals held at the bulk value (terminal_psi = 1 is the uniform state itself): still nothing may ever change
    for (m, dens, sm), ad, dtm in itertools.product([x for x in meshes if x[0] in ("G1", "G2", "G3", "G4", "G6")][: 3 if quick else 8], (False, True), (1e-2, 1e-1)):
        out.append(dict(dev=m, dens=dens, smooth=sm, gamma=10.0, u=5.79, adaptive=ad, dt_max=dtm, screening=False, terminal_psi=1.0))
        if ad:
            # the library's default initial step: any spurious change of |psi|^2 per step then caps the step far below dt_max
            out.append(dict(dev=m, dens=dens, smooth=sm, gamma=10.0, u=5.79, adaptive=ad, dt_max=dtm, screening=False, terminal_psi=1.0, dt_init=1e-6))
            out.append(dict(dev=m, dens=dens, smooth=sm, gamma=10.0, u=5.79, adaptive=ad, dt_max=dtm, screening=False, dt_init=1e-6))
    scr_meshes = meshes[:2] if quick else meshes
    scr_gu = GU[:2] if quick else GU
    for (m, dens, sm), (g, u) in itertools.product(scr_meshes, scr_gu):
        for ad in (True,) if quick else (False, True):
            out.append(dict(dev=m, dens=dens, smooth=sm, gamma=g, u=u, adaptive=ad, dt_max=1e-2, screening=True))
    return out


def run_case(case):
    import tdgl

    from .. import drivers, zoo

    res = CaseResult()
    res.key = case_key(case)
    prior = case.get("prior")
    dev = zoo.device(case["dev"], density=case["dens"], smooth=case["smooth"], gamma=case["gamma"], u=case["u"], memo=(prior is None))
    alive = None
    if prior:
        names = [t.name for t in dev.terminals]
        cur = None
        if len(names) >= 2:
            cur = {n: 0.0 for n in names}
            cur[names[0]], cur[names[1]] = 0.8, -0.8
        po = tdgl.SolverOptions(solve_time=0.05, dt_init=1e-3, dt_max=1e-2, output_file="prior.h5", progress_interval=10**9,
                                include_screening=(prior == "screened_driven_solve"), screening_tolerance=1e-2)
        if prior in ("pinned_driven_solve", "screened_driven_solve"):
            tdgl.solve(dev, po, applied_vector_potential=0.5, terminal_currents=cur)
        elif prior == "driven_solver_alive":
            alive = tdgl.TDGLSolver(dev, po, applied_vector_potential=0.5, terminal_currents=cur)  # constructed, kept alive, never run
        else:
            tdgl.solve(dev, tdgl.SolverOptions(solve_time=0.05, dt_init=1e-3, dt_max=1e-2, terminal_psi=None, progress_interval=10**9))
    dtm = case["dt_max"]
    ad = case["adaptive"]
    window = 3
    opts = tdgl.SolverOptions(
        solve_time=5.0, dt_init=((case.get("dt_init") or 1e-3) if ad else dtm), dt_max=dtm, adaptive=ad, adaptive_window=window, save_every=20,
        output_file="out.h5", terminal_psi=case.get("terminal_psi"), include_screening=case["screening"], progress_interval=10**9, skip_time=(1.0 if case.get("thermal") else 0.0),
    )
    rm = RawMesh.from_mesh(dev.mesh)
    lam = float(np.abs(np.linalg.eigvals(rm.laplacian_dense())).max())
    S = dtm * lam * np.sqrt(1 + case["gamma"] ** 2) / case["u"]
    unstable = bool(S > 2.0)
    if not unstable:
        res.count("stable_regime_runs")
    raised = None
    if prior in ("same_options_fixed_first", "same_options_larger_dt_max_first"):
        # the caller keeps one SolverOptions object: a first (quiet) solve with other settings, then the fields are edited in place
        want = {f: getattr(opts, f) for f in ("adaptive", "dt_init", "dt_max", "output_file")}
        if prior == "same_options_fixed_first":
            opts.adaptive, opts.dt_init, opts.dt_max = False, 1e-3, 1e-3
        else:
            opts.dt_max = 10 * dtm
        opts.output_file = "first.h5"
        tdgl.solve(dev, opts)
        for f, v in want.items():
            setattr(opts, f, v)
    skw = {}
    if prior == "seeded_from_longer_steps":
        first = tdgl.solve(dev, tdgl.SolverOptions(solve_time=3.0, dt_init=1e-3, dt_max=(10 * dtm if case["gamma"] > 1 else 2 * dtm), adaptive=True, adaptive_window=window,
                                                   output_file="first.h5", terminal_psi=None, progress_interval=10**9))
        res.count("seed_last_dt_over_dt_max", int(float(first.tdgl_data.state["dt"]) > dtm))
        skw["seed_solution"] = first
    try:
        tdgl.solve(dev, opts, **skw)
    except RuntimeError as exc:
        if "exactly singular" in str(exc):
            # the pure-Neumann mu Laplacian is singular by construction; SuperLU happens to flag it for
            # some meshes. Not a statement about stationarity: the fixture is unusable, recorded as such.
            res.count("fixture_unusable_singular_factor")
            res.info.append(f"mu Laplacian LU 'exactly singular' for {case['dev']}/{case['dens']}/smooth={case['smooth']}")
            res.outcome = "fixture-unusable"
            return res
        if "converge" not in str(exc):
            raise
        raised = str(exc)
    frames, _ = drivers.read_frames("out.h5")
    worst = {"psi": 0.0, "mu": 0.0, "Js": 0.0, "Jn": 0.0, "A_ind": 0.0}
    for fr in frames:
        d = fr["data"]
        worst["psi"] = max(worst["psi"], float(np.abs(np.asarray(d["psi"]) - 1).max()))
        worst["mu"] = max(worst["mu"], float(np.abs(d["mu"]).max()))
        worst["Js"] = max(worst["Js"], float(np.abs(d["supercurrent"]).max()))
        worst["Jn"] = max(worst["Jn"], float(np.abs(d["normal_current"]).max()))
        worst["A_ind"] = max(worst["A_ind"], float(np.abs(d["induced_vector_potential"]).max()))
        res.states.add(f"{res.key}:{int(fr['attrs']['step'])}")
    res.transitions = int(frames[-1]["attrs"]["step"]) if frames else 0
    w = max(worst.values())
    if not unstable:
        res.residual("quiet_stable_regime", w)
    if w > TOLERANCES["quiet"] or raised:
        which = max(worst, key=worst.get)
        res.violate(
            "not-stationary", explicit_euler_unstable=unstable, small_gamma=bool(case["gamma"] <= 1.0), **({"after": prior} if prior else {}),
            detail={"case": case, "S": S, "lambda_max": lam, "worst": worst, "largest": which, "raised": raised},
        )
    # every step respects the ceiling of *this* run (fixed-step runs: dt_init = dt_max)
    alld = np.concatenate([np.atleast_1d(fr["records"]["dt"]).astype(float) for fr in frames[1:]]) if len(frames) > 1 else np.array([])
    if alld.size and float(alld.max()) > dtm * (1 + 1e-12):
        res.violate("dt-above-dt-max", **({"after": prior} if prior else {}), detail={"case": case, "max_dt": float(alld.max()), "dt_max": dtm, "n_above": int((alld > dtm * (1 + 1e-12)).sum())})
    # adaptive: dt grows to dt_max and stays
    if ad and not raised:
        allc = []
        for fr in frames[1:]:
            dt = np.atleast_1d(fr["records"]["dt"]).astype(float)
            allc.append(dt[dt > 0])
        dts = np.concatenate(allc) if allc else np.array([])
        # the rule first applies after step > window; allow the averaging steps needed to climb from dt_init
        k = next((i for i, v in enumerate(dts) if v == dtm), None)
        if k is None or k > window + 25:
            if w <= TOLERANCES["quiet"]:
                res.violate("dt-does-not-reach-max", detail={"case": case, "first_at": k, "dts_head": dts[:12]})
        else:
            res.count("reached_dt_max")
            if not np.all(dts[k:] == dtm) and w <= TOLERANCES["quiet"]:
                res.violate("dt-leaves-max", detail={"case": case, "dts_tail": dts[-8:]})
    res.nontrivial = len(frames) > 3
    res.outcome = f"{'unstable' if unstable else 'stable'};{'quiet' if w <= TOLERANCES['quiet'] else 'noisy'};ad={ad}"
    return res
