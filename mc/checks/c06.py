"""C06 - the order parameter is pinned on current terminals and nowhere else.

Every recorded step of every run in a finite product (device x terminal value x drive x screening):
 (a) psi on terminal sites (recomputed independently with shapely) equals the configured value;
 (b) terminal_psi=None: frames are bitwise those of the same mesh in a device without terminals;
 (c) every non-terminal site evolves freely: its new psi is reproduced from the previous recorded
     state by RM-step (documented update, explicit neighbour sums), which knows nothing of pinning
     except the terminal sites' values as neighbours.
"""
from __future__ import annotations

import itertools

import numpy as np

from ..core import CaseResult, case_key
from ..ref.physics import RawMesh, psi_update

ID = "C06"
LEVEL = "model_checking"
RULE = (
    "devices with terminals x terminal_psi in {0, None, 1, 0.5, 0.6+0.8j, 1e-3} x drive {field, current, both, time-dependent A} "
    "x screening; every recorded step (save_every=1) is a state on which pinning (a) and free evolution (c) are evaluated; "
    "(b) differential run without terminals for terminal_psi=None. Non-trivial = run has a non-zero drive; distinct = case parameters."
)
STATE_DEF = "recorded steps (case, step label) checked; transitions = solver updates between consecutive recorded steps"
ASSUMPTIONS = [
    "terminal sites recomputed independently: mesh boundary sites (incidence count) inside the terminal polygon (shapely, sites within 1e-7 of the outline would be ambiguous: none in the zoo)",
    "(c) uses the vector potential stored in the output file (its unit scale is C08's subject) and is skipped for screening runs, whose per-iteration link variables are not recorded",
]
TOLERANCES = {"pin": 1e-12, "free": 1e-9}
VALUES = {"0": 0.0, "None": None, "1": 1.0, "0.5": 0.5, "0.6+0.8j": 0.6 + 0.8j, "1e-3": 1e-3}


def bound(tier):
    return {
        "quick": "devices {G1,G3} x 6 terminal values x 4 drives, 8 steps, no screening; + screening for {0, 1, None} x {both}; (b) on 2 devices x 2 drives",
        "thorough": "devices {G1,G3,G4,G6,G2} x 6 values x 4 drives x screening {off,on}, 10 steps; (b) on 5 devices x 2 drives x screening",
    }[tier]


def floors(tier):
    return {"distinct_nontrivial": 40, "states": 300, "count:pinned_site_checks": 1000, "count:free_site_checks": 10000, "count:steps_with_retries": 50}


def cases(tier, seed):
    quick = tier == "quick"
    out = []
    devs = ["G1", "G3"] if quick else ["G1", "G3", "G4", "G6", "G2"]
    for d, v, drive in itertools.product(devs, VALUES, ("field", "current", "both", "tdep")):
        out.append(dict(fam="pin", dev=d, value=v, drive=drive, screening=False))
    if quick:
        for d, v in itertools.product(["G1"], ["0", "1", "None"]):
            out.append(dict(fam="pin", dev=d, value=v, drive="both", screening=True))
    else:
        for d, v, drive in itertools.product(devs, VALUES, ("both", "tdep")):
            out.append(dict(fam="pin", dev=d, value=v, drive=drive, screening=True))
    for d in devs:
        for drive in ("field", "tdep"):
            for scr in (False,) if quick else (False, True):
                out.append(dict(fam="none", dev=d, drive=drive, screening=scr))
    # thermalisation first: the recorded stage (including its frame 0, the thermalised state) must hold the terminal value
    for d, v in itertools.product(devs[:2], VALUES):
        out.append(dict(fam="pin", dev=d, value=v, drive="tdep", screening=False, thermal=True))
    # adaptive runs with coarse steps: refused updates are retried with a reduced step
    for d, v, drive in itertools.product(devs[:2], VALUES, ("both", "current")):
        out.append(dict(fam="pin", dev=d, value=v, drive=drive, screening=False, adaptive=True))
    # non-initial starts: the run is seeded with the final state of a run that used another terminal value
    for d in devs[:1] if quick else devs[:3]:
        for a, b in itertools.permutations(["None", "0", "1", "0.6+0.8j"], 2):
            out.append(dict(fam="seeded", dev=d, seed_value=a, value=b, drive="both"))
    for d in devs[:1] if quick else devs[:3]:
        for a, b in (("None", "0"), ("1", "0"), ("0.6+0.8j", "0"), ("0", "1"), ("None", "0.6+0.8j")):
            out.append(dict(fam="seeded", dev=d, seed_value=a, value=b, drive="both", reuse_options=True))
    # histories: several solves on the *same* device / mesh object with different terminal values
    for d in devs[:2]:
        for hist in (["0", "0"], ["1", "0"], ["None", "0.6+0.8j"]):
            out.append(dict(fam="seq", dev=d, history=hist, drive="tdep", remesh=True))
    seq_vals = ["0", "None", "1"] if quick else ["0", "None", "1", "0.6+0.8j"]
    for d in devs[:2]:
        for hist in itertools.product(seq_vals, repeat=2):
            if hist[0] == hist[1]:
                continue
            out.append(dict(fam="seq", dev=d, history=list(hist), drive="tdep"))
        if not quick:
            for hist in itertools.product(seq_vals[:3], repeat=3):
                if len(set(hist)) > 1:
                    out.append(dict(fam="seq", dev=d, history=list(hist), drive="both"))
    return out


TERMS = {"G1": ["source", "drain"], "G2": ["source", "drain"], "G3": ["left", "right", "stem"], "G4": ["w", "e", "n", "s"],
         "G6": ["a", "b"]}


def _ramp(x, y, z, *, t):
    s = 0.15 + 2.0 * t
    return np.stack([-s * y / 2 + 0.1 * s, s * x / 2, np.zeros_like(x)], axis=1)


def _drive(dev_name, drive):
    import tdgl

    names = TERMS[dev_name]
    base = {2: [1.0, -1.0], 3: [0.5, 1.0, -1.5], 4: [0.5, 1.0, -2.0, 0.5]}[len(names)]
    kw = {}
    if drive in ("field", "both"):
        kw["applied_vector_potential"] = 0.35
    if drive in ("current", "both"):
        kw["terminal_currents"] = {n: 0.5 * b for n, b in zip(names, base)}
    if drive == "tdep":
        kw["applied_vector_potential"] = tdgl.Parameter(_ramp, time_dependent=True)
        kw["terminal_currents"] = {n: 0.25 * b for n, b in zip(names, base)}
    return kw


def terminal_sites(dev, rm, boundary_sites, xi):
    from shapely.geometry import Point, Polygon as SPoly

    idx = []
    amb = 0
    for term in dev.terminals:
        poly = SPoly(np.asarray(term.points))
        for i in boundary_sites:
            p = Point(rm.sites[i] * xi)
            if poly.exterior.distance(p) < 1e-7:
                amb += 1
            if poly.contains(p):
                idx.append(int(i))
    return np.array(sorted(set(idx)), int), amb


def run_seq(case):
    """every solve of a history on one fresh device object is checked like a single run"""
    from .. import zoo

    res = CaseResult()
    res.key = case_key(case)
    dev = zoo.device(case["dev"], memo=False)  # fresh Device and Mesh objects: the history starts clean
    for i, val in enumerate(case["history"]):
        if i and case.get("remesh"):
            # the same device object is meshed again between the solves (finer mesh: other site numbering, other terminal sites)
            dev.make_mesh(max_edge_length=0.62 * dev.layer.coherence_length, smooth=0)
        sub = dict(fam="pin", dev=case["dev"], value=val, drive=case["drive"], screening=False)
        r = run_pin(sub, dev=dev, path=f"seq{i}.h5")
        for v in r.violations:
            v["sig"]["after_history"] = ",".join(case["history"][:i]) or "none"
            v["detail"]["history"] = case["history"]
            res.violations.append(v)
        res.states.update(f"{res.key}:{i}:{s}" for s in r.states)
        res.transitions += r.transitions
        for k, c in r.counts.items():
            res.count(k, c)
        for k, c in r.resid.items():
            res.residual(k, c)
    res.executions = len(case["history"])
    res.nontrivial = True
    res.outcome = "seq"
    return res


def run_seeded(case):
    import tdgl

    from .. import zoo

    dev = zoo.device(case["dev"])
    dt = 2.0**-6
    o = tdgl.SolverOptions(solve_time=6 * dt, dt_init=dt, dt_max=dt, adaptive=False, save_every=3, output_file="seedrun.h5",
                           terminal_psi=VALUES[case["seed_value"]], progress_interval=10**9)
    seed = tdgl.solve(dev, o, **_drive(case["dev"], case["drive"]))
    sub = dict(fam="pin", dev=case["dev"], value=case["value"], drive=case["drive"], screening=False)
    # reuse_options: the caller keeps one SolverOptions object, edits it and solves again (the seed solution refers to that object)
    res = run_pin(sub, dev=dev, path="seeded.h5", seed=seed, reuse_options=(o if case.get("reuse_options") else None))
    for v in res.violations:
        v["sig"]["seeded_from_value"] = case["seed_value"]
        v["detail"]["case"] = case
    res.key = case_key(case)
    res.executions = 2
    res.outcome = "seeded"
    return res


def run_pin(case, dev=None, path="out.h5", seed=None, reuse_options=None):
    import h5py
    import tdgl

    from .. import drivers, zoo

    res = CaseResult()
    res.key = case_key(case)
    if dev is None:
        dev = zoo.device(case["dev"])
    v = VALUES[case["value"]]
    dt = 2.0**-6
    nsteps = 8
    ad = {}
    if case.get("adaptive"):
        # coarse adaptive steps: updates are refused and retried with a reduced step; the terminal value holds on those steps too
        dt, nsteps = 0.25, 12
        ad = dict(dt_max=0.5, adaptive=True, adaptive_window=2, adaptive_time_step_multiplier=0.25, max_solve_retries=12)
    opts = tdgl.SolverOptions(
        solve_time=nsteps * dt, dt_init=dt, **{**dict(dt_max=dt, adaptive=False), **ad}, save_every=1, output_file=path, terminal_psi=v,
        include_screening=case["screening"], screening_tolerance=1e-2, progress_interval=10**9, skip_time=(3 * dt if case.get("thermal") else 0.0),
    )
    if reuse_options is not None:
        for f in ("solve_time", "dt_init", "dt_max", "adaptive", "save_every", "output_file", "terminal_psi", "include_screening", "screening_tolerance",
                  "progress_interval", "skip_time"):
            setattr(reuse_options, f, getattr(opts, f))
        opts = reuse_options
    kw = _drive(case["dev"], case["drive"])
    retried = {"n": 0}
    if case.get("adaptive"):
        orig_step = tdgl.TDGLSolver.adaptive_euler_step

        def counting_step(self, step, psi, abs_sq_psi, mu, epsilon, dt_):
            out = orig_step(self, step, psi, abs_sq_psi, mu, epsilon, dt_)
            if out[2] < dt_:
                retried["n"] += 1
            return out

        tdgl.TDGLSolver.adaptive_euler_step = counting_step
    try:
        tdgl.solve(dev, opts, seed_solution=seed, **kw)
    except RuntimeError as exc:
        if "converge" not in str(exc):
            raise
        res.count("solver_refused")
    finally:
        if case.get("adaptive"):
            tdgl.TDGLSolver.adaptive_euler_step = orig_step
            res.count("steps_with_retries", retried["n"])
    rm = drivers.read_raw_mesh(path)
    bsites = np.unique(rm.edges[rm.bidx].ravel())
    xi = dev.layer.coherence_length
    tsites, amb = terminal_sites(dev, rm, bsites, xi)
    if amb:
        raise AssertionError("ambiguous terminal-site membership in fixture")
    lib_sites = np.sort(np.concatenate([t.site_indices for t in dev.terminal_info()]))
    if not np.array_equal(lib_sites, tsites):
        res.violate("terminal-sites-differ", detail={"library": lib_sites, "oracle": tsites})
    free = np.setdiff1d(np.arange(rm.n), tsites)
    frames, _ = drivers.read_frames(path)
    with h5py.File(path, "r") as f:
        fixed_A = np.array(f["applied_vector_potential"]) if "applied_vector_potential" in f else None
        eps = np.array(f["epsilon"]) if "epsilon" in f else None
    gamma, u = dev.layer.gamma, dev.layer.u
    prev = None
    for fr in frames:
        s = int(fr["attrs"]["step"])
        psi = np.asarray(fr["data"]["psi"])
        res.states.add(f"{res.key}:{s}")
        # (a) pinning
        res.count("pinned_site_checks", len(tsites))
        if v is not None:
            dev_abs = np.abs(psi[tsites] - v)
            res.residual("pin", dev_abs.max())
            bad = dev_abs.max() > (0.0 if v == 0 else TOLERANCES["pin"])
            if bad:
                res.violate(
                    "terminal-psi-not-held", value=case["value"], drive=case["drive"], screening=case["screening"], at_step0=(s == 0),
                    detail={"case": case, "label": s, "max_dev": float(dev_abs.max()), "psi": psi[tsites][:4]},
                )
                break
        # (c) free evolution of all non-terminal sites (and of terminal sites when nothing is pinned)
        if prev is not None and not case["screening"]:
            A = np.asarray(fr["data"]["applied_vector_potential"]) if "applied_vector_potential" in fr["data"] else fixed_A
            dts = float(np.atleast_1d(fr["records"]["dt"])[0])
            psi0, mu0 = np.asarray(prev["data"]["psi"]), np.asarray(prev["data"]["mu"])
            lap = rm.cov_laplacian(psi0, A)
            r = psi_update(psi0, mu0, eps, gamma, u, dts, lap)
            want = np.asarray(r["psi_new"], complex)
            sites = free if v is not None else np.arange(rm.n)
            err = np.abs(psi[sites] - want[sites]).max()
            res.residual("free", err)
            res.count("free_site_checks", len(sites))
            res.transitions += 1
            if err > TOLERANCES["free"]:
                worst = sites[int(np.argmax(np.abs(psi[sites] - want[sites])))]
                nbr_of_terminal = bool(
                    np.isin(rm.edges[(rm.edges == worst).any(axis=1)].ravel(), tsites).any()
                )
                res.violate(
                    "free-site-not-free", value=case["value"], drive=case["drive"], neighbour_of_terminal=nbr_of_terminal,
                    is_terminal_site=bool(worst in set(tsites.tolist())),
                    detail={"case": case, "label": s, "site": int(worst), "err": float(err)},
                )
                break
        prev = fr
    res.nontrivial = True
    res.outcome = f"pin;value={case['value']};scr={case['screening']}"
    return res


def run_none(case):
    """(b) terminal_psi=None, no bias: bitwise equal to the same mesh without terminals."""
    import tdgl

    from .. import drivers, zoo

    res = CaseResult()
    res.key = case_key(case)
    dev = zoo.device(case["dev"])
    bare = tdgl.Device(dev.name, layer=dev.layer.copy(), film=dev.film.copy(), holes=[h.copy() for h in dev.holes],
                       probe_points=dev.probe_points, length_units=dev.length_units)
    bare.mesh = dev.mesh
    dt = 2.0**-6
    kw = {"applied_vector_potential": 0.35} if case["drive"] == "field" else {
        "applied_vector_potential": tdgl.Parameter(_ramp, time_dependent=True)}
    out = []
    for d, path in ((dev, "with.h5"), (bare, "bare.h5")):
        opts = tdgl.SolverOptions(solve_time=8 * dt, dt_init=dt, dt_max=dt, adaptive=False, save_every=1, output_file=path,
                                  terminal_psi=None, include_screening=case["screening"], screening_tolerance=1e-2,
                                  progress_interval=10**9)
        try:
            tdgl.solve(d, opts, **kw)
        except RuntimeError as exc:
            if "converge" not in str(exc):
                raise
            res.count("solver_refused")  # documented failure; the frames written before it are still compared
        out.append(drivers.read_frames(path)[0])
    for fa, fb in zip(*out):
        s = int(fa["attrs"]["step"])
        res.states.add(f"{res.key}:{s}")
        res.transitions += 1
        for dn in ("psi", "mu", "supercurrent", "normal_current", "induced_vector_potential"):
            if not np.array_equal(fa["data"][dn], fb["data"][dn]):
                res.violate("unset-terminal-value-still-pins", dataset=dn, drive=case["drive"],
                            detail={"case": case, "label": s, "max_abs_diff": float(np.abs(np.asarray(fa["data"][dn]) - np.asarray(fb["data"][dn])).max())})
                break
    if len(out[0]) != len(out[1]):
        res.violate("frame-count-differs")
    res.executions = 2
    res.nontrivial = True
    res.outcome = "none-vs-bare"
    return res


def run_case(case):
    return {"pin": run_pin, "none": run_none, "seq": run_seq, "seeded": run_seeded}[case["fam"]](case)
