"""C04 - observables are invariant under gauge transformations.

op family : meshes x vector potentials x gauge functions chi x psi x pinned sets; covariance
            identities of the covariant gradient / Laplacian and edge-wise invariance of the
            supercurrent (entrywise, 1e-12).
run family: the same problem run with a uniformly shifted vector potential (A = B/2(-(y-y0), x-x0)),
            started from the gauge-transformed initial state psi = exp(i chi); every recorded step is
            compared with the unshifted run on |psi|, J_s, J_n, mu - <mu> and psi up to the gauge phase
            and a global phase.
"""
from __future__ import annotations

import itertools

import numpy as np

from ..core import CaseResult, case_key
from ..ref.compare import compare_frames

ID = "C04"
LEVEL = "model_checking"
RULE = (
    "op: (mesh x A in {0, uniform, linear, wrapping, seeded per-edge} x chi in {0, const, linear, quadratic, seeded per-site, large} x psi in 4 patterns x pinned {none, terminals}), "
    "3 identities each; run: devices x {no terminals, biased terminals} x screening x 2 non-trivial shifts, every recorded step of the paired runs is a compared state. "
    "Non-trivial = chi not constant / shift non-zero; distinct = case parameters."
)
STATE_DEF = "run family: (pair, step label) compared; op family: (mesh, A, chi, psi, pinned) tuples; transitions = updates of the paired runs + identities evaluated"
ASSUMPTIONS = [
    "the gauge-shifted run is started from psi = exp(i chi) through the public seed_solution argument (psi=1 in the shifted gauge is a different physical state)",
    "runs with a non-zero pinned terminal_psi are excluded (the boundary condition itself is not gauge covariant)",
    "mu compared after removing its area-weighted mean, psi after removing the gauge phase and the best global phase",
]
TOLERANCES = {"op": 1e-12, "run": 1e-8, "run_screening": 1e-5}
A_ALPH = ["zero", "uni", "lin", "wrap", "rnd"]
CHI_ALPH = ["zero", "const", "lin", "quad", "rnd", "large"]
PSI_ALPH = ["one", "phase", "rnd", "vortex"]


def bound(tier):
    return {
        "quick": "op: 6 meshes x 5 A x 6 chi x 4 psi x 2 pinned; run: {G1,G5} x {bare, biased terminals} x screening off x shifts {(2.5,-1.5),(40,25)}, 8 steps",
        "thorough": "op: 12 meshes (zoo, smoothed, synthetic) x 5 A x 6 chi x 4 psi x 2 pinned x 2 seeds; run: {G1,G2,G5,G3} x {bare, biased} x screening {off,on} x 2 shifts, 10 steps",
    }[tier]


def floors(tier):
    return {"distinct_nontrivial": 15, "states": 300, "count:run_frames_compared": 40}


OP_Q = ["tiny", "G1", "G3", "hex43", "ann", "rd40"]
OP_T = OP_Q + ["G2", "G4", "G5", "G6", "G7s", "hex34s"]


def cases(tier, seed):
    quick = tier == "quick"
    out = []
    for m in OP_Q if quick else OP_T:
        for pinned in ("none", "term"):
            for sd in (seed,) if quick else (seed, seed + 1):
                out.append(dict(fam="op", mesh=m, pinned=pinned, seed=sd))
    devs = ["G1", "G5"] if quick else ["G1", "G2", "G5", "G3"]
    for d, biased, scr, shift in itertools.product(devs, (False, True), (False,) if quick else (False, True), ((2.5, -1.5), (40.0, 25.0))):
        if biased and d == "G5":
            continue
        out.append(dict(fam="run", dev=d, biased=biased, screening=scr, shift=list(shift), ramp=0.0))
    # time-dependent fields: the potential changes every step, slowly and fast, in the shifted gauge too
    for d, shift, ramp in itertools.product(devs[:1] if quick else devs[:2], ((40.0, 25.0), (2.5, -1.5)), (2e-3, 0.5)):
        out.append(dict(fam="run", dev=d, biased=False, screening=False, shift=list(shift), ramp=ramp))
    # a field switched on from exactly zero (in one gauge the potential is identically zero at t = 0, in the other it is not)
    for d, scr in itertools.product(devs[:1] if quick else devs[:2], (False, True)):
        out.append(dict(fam="run", dev=d, biased=False, screening=scr, shift=[2.5, -1.5], ramp=4.0, from_zero=True))
    # screening (its convergence test must not see the gauge): static field, and transport current at zero field
    for d, biased, B in ((devs[0], False, 0.35), (devs[0], True, 0.35), (devs[0], True, 0.0)) if quick else [(d, b, B) for d in devs[:2] for b in (False, True) for B in (0.35, 0.0) if b or B]:
        out.append(dict(fam="run", dev=d, biased=biased, screening=True, shift=[40.0, 25.0], ramp=0.0, B=B, unscreened_seed=True))
    # the seed of the shifted run is a saved state of the unshifted problem, gauge-transformed by the user
    for d, biased, ramp in itertools.product(devs[:1] if quick else devs[:2], (False, True), (0.0, 0.5)):
        out.append(dict(fam="run", dev=d, biased=biased, screening=False, shift=[2.5, -1.5], ramp=ramp, seed_gauge="other"))
    # both solvers of a pair exist before either is run (a sweep prepared in advance), run in both orders
    for d, biased, ramp, order in itertools.product(devs[:1] if quick else devs[:2], (False, True), (0.0, 0.5), ("ab", "ba")):
        out.append(dict(fam="run", dev=d, biased=biased, screening=False, shift=[2.5, -1.5], ramp=ramp, prepared=order))
    if not quick:
        for d, order in itertools.product(devs[:2], ("ab", "ba")):
            out.append(dict(fam="run", dev=d, biased=False, screening=True, shift=[40.0, 25.0], ramp=0.0, prepared=order))
    # thermalisation first: the recorded stage restarts step counter and clock on a solver whose operators hold the last potential
    for d, shift, (ramp, fz) in itertools.product(devs[:1] if quick else devs[:2], ((40.0, 25.0), (2.5, -1.5)), ((0.5, False), (4.0, True))):
        out.append(dict(fam="run", dev=d, biased=False, screening=False, shift=list(shift), ramp=ramp, from_zero=fz, thermal=True))
    return out


# ---------------------------------------------------------------------------------------------
def run_op(case):
    from tdgl.finite_volume.operators import MeshOperators
    from tdgl.solver.options import SparseSolver

    from . import c10

    res = CaseResult()
    res.key = case_key(case)
    if case["mesh"] == "hex34s":
        from tdgl.finite_volume import Mesh

        from .. import zoo

        p, t = zoo.hex_lattice(3, 4, shear=0.2)
        mesh, term = Mesh.from_triangulation(p, t), None
        term = mesh.boundary_indices[:3]
    elif case["mesh"] in ("G4", "G5", "G6"):
        from .. import zoo

        d = zoo.device(case["mesh"])
        mesh = d.mesh
        ti = d.terminal_info()
        term = np.concatenate([t.site_indices for t in ti]) if ti else mesh.boundary_indices[:3]
    else:
        mesh, term = c10.get_mesh(case["mesh"])
    em = mesh.edge_mesh
    n, m = len(mesh.sites), len(em.edges)
    rng = np.random.default_rng([case["seed"], 404])
    c, x = em.centers, mesh.sites
    d = em.directions
    i0, i1 = em.edges[:, 0], em.edges[:, 1]
    A_set = {
        "zero": np.zeros((m, 2)),
        "uni": np.tile([0.3, -0.2], (m, 1)),
        "lin": 0.35 * np.column_stack([-c[:, 1], c[:, 0]]),
        "wrap": 14.0 * np.column_stack([-c[:, 1], c[:, 0]]) + 3.0,
        "rnd": rng.normal(size=(m, 2)),
    }
    chi_set = {
        "zero": np.zeros(n),
        "const": np.full(n, 0.7),
        "lin": 0.4 * x[:, 0] - 0.9 * x[:, 1],
        "quad": 0.3 * x[:, 0] ** 2 - 0.2 * x[:, 0] * x[:, 1],
        "rnd": rng.uniform(-np.pi, np.pi, n),
        "large": 37.0 * x[:, 0] + 11.0 * x[:, 1] ** 2,
    }
    th = np.arctan2(x[:, 1] - x[:, 1].mean() - 0.013, x[:, 0] - x[:, 0].mean() - 0.007)
    psi_set = {
        "one": np.ones(n, complex),
        "phase": np.exp(1j * (0.5 * x[:, 0] + 0.1)),
        "rnd": rng.normal(size=n) + 1j * rng.normal(size=n),
        "vortex": np.tanh(np.hypot(x[:, 0] - x[:, 0].mean(), x[:, 1] - x[:, 1].mean())) * np.exp(1j * th),
    }
    fixed = np.asarray(term, dtype=np.int64) if case["pinned"] == "term" else np.array([], dtype=np.int64)

    def ops_for(A):
        o = MeshOperators(mesh, SparseSolver.SUPERLU, fixed_sites=fixed, fix_psi=True)
        o.build_operators()
        o.set_link_exponents(A)
        return o

    res.executions = 0
    for an, A in A_set.items():
        oA = ops_for(A)
        G = oA.psi_gradient.toarray()
        L = oA.psi_laplacian.toarray()
        for cn, chi in chi_set.items():
            dchi = chi[i1] - chi[i0]
            A2 = A + (dchi / (d**2).sum(axis=1))[:, None] * d  # A'.d = A.d + chi_j - chi_i
            oB = ops_for(A2)
            G2 = oB.psi_gradient.toarray()
            L2 = oB.psi_laplacian.toarray()
            ph = np.exp(1j * chi)
            res.executions += 1
            res.transitions += 3
            res.states.add(f"{case['mesh']}/{case['pinned']}/{an}/{cn}")
            sG = max(1.0, np.abs(G).max())
            e1 = np.abs(G2 * ph[None, :] - ph[i0][:, None] * G).max() / sG
            sL = max(1.0, np.abs(L).max())
            e2 = np.abs(L2 - ph[:, None] * L * np.conj(ph)[None, :]).max() / sL
            res.residual("op_gradient", e1)
            res.residual("op_laplacian", e2)
            if e1 > TOLERANCES["op"]:
                res.violate("gradient-not-covariant", A=an, chi=cn, pinned=case["pinned"], detail={"mesh": case["mesh"], "err": float(e1)})
            if e2 > TOLERANCES["op"]:
                rows = np.unique(np.argwhere(np.abs(L2 - ph[:, None] * L * np.conj(ph)[None, :]) > TOLERANCES["op"] * sL)[:, 0])
                res.violate("laplacian-not-covariant", A=an, chi=cn, pinned=case["pinned"],
                            pinned_rows_only=bool(len(rows) and np.isin(rows, fixed).all()),
                            detail={"mesh": case["mesh"], "err": float(e2), "rows": rows[:8]})
            for pn, psi in psi_set.items():
                J1 = oA.get_supercurrent(psi)
                J2 = oB.get_supercurrent(psi * ph)
                e3 = np.abs(J1 - J2).max() / max(1.0, np.abs(J1).max())
                res.residual("op_supercurrent", e3)
                if e3 > TOLERANCES["op"]:
                    res.violate("supercurrent-not-invariant", A=an, chi=cn, psi=pn, detail={"mesh": case["mesh"], "err": float(e3)})
    res.nontrivial = True
    res.outcome = "op"
    return res


# ---------------------------------------------------------------------------------------------
def _shifted_A(x, y, z, *, B, x0, y0, Bs=None):
    # the constant gauge offset is Bs/2 (y0, -x0); Bs = B unless given (so that a zero field can be shifted too)
    Bs = B if Bs is None else Bs
    return np.stack([-B * y / 2 + Bs * y0 / 2, B * x / 2 - Bs * x0 / 2, np.zeros_like(x)], axis=1)


def _shifted_A_t(x, y, z, *, t, B, x0, y0, rate, B0=None):
    # the field is time dependent, the gauge shift B/2 (y0, -x0) is not (a time-dependent shift would also
    # change mu by a position-dependent amount, which is outside the statement)
    b = (B if B0 is None else B0) + rate * t
    return np.stack([-b * y / 2 + B * y0 / 2, b * x / 2 - B * x0 / 2, np.zeros_like(x)], axis=1)


TERMS = {"G1": ["source", "drain"], "G2": ["source", "drain"], "G3": ["left", "right", "stem"]}


def run_run(case):
    import h5py
    import tdgl

    from .. import drivers, zoo

    res = CaseResult()
    res.key = case_key(case)
    dev = zoo.device(case["dev"], terminals=case["biased"], lam=(1.0 if case["screening"] else 2.0))
    B = case.get("B", 0.35)
    Bs = B if B else 0.35
    dt = 2.0**-6
    nsteps = 8
    kw = {}
    if case["biased"]:
        names = TERMS[case["dev"]]
        base = {2: [0.6, -0.6], 3: [0.3, 0.5, -0.8]}[len(names)]
        kw["terminal_currents"] = dict(zip(names, base))

    def opts(path, steps):
        return tdgl.SolverOptions(solve_time=steps * dt, dt_init=dt, dt_max=dt, adaptive=False, save_every=1, output_file=path,
                                  include_screening=case["screening"], screening_tolerance=1e-6, max_iterations_per_step=5000,
                                  progress_interval=10**9, skip_time=(3 * dt if case.get("thermal") and steps else 0.0))

    def potential(x0, y0):
        if case.get("ramp"):
            return tdgl.Parameter(_shifted_A_t, time_dependent=True, B=B, x0=x0, y0=y0, rate=case["ramp"], B0=(0.0 if case.get("from_zero") else None))
        return tdgl.Parameter(_shifted_A, B=B, x0=x0, y0=y0, Bs=Bs)

    def run(x0, y0, tag):
        A = potential(x0, y0)
        # one-frame file of this problem, psi overwritten with exp(i chi), used as the seed. With seed_gauge="other" the file
        # comes from the problem stated in the unshifted gauge (a saved state of run a, gauge-transformed by the user):
        # what the seed file says about *its* vector potential must not matter to the run it seeds
        A_seed = potential(0.0, 0.0) if case.get("seed_gauge") == "other" else A
        s0 = tdgl.solve(dev, opts(f"seed-{tag}.h5", 0), applied_vector_potential=A_seed, **kw)
        solver = tdgl.TDGLSolver(dev, opts(f"x-{tag}.h5", nsteps), applied_vector_potential=A, **kw)
        c_user = np.array([Bs * y0 / 2, -Bs * x0 / 2]) if not case.get("ramp") else np.array([B * y0 / 2, -B * x0 / 2])  # the constant offset
        chi = (solver.A_scale * c_user) @ dev.mesh.sites.T
        psi0 = np.exp(1j * chi)
        pinned = np.concatenate([t.site_indices for t in dev.terminal_info()]) if case["biased"] else np.array([], int)
        psi0[pinned] = 0
        with h5py.File(s0.path, "r+") as f:
            f["data/0/psi"][...] = psi0
        seed = tdgl.Solution.from_hdf5(s0.path)
        if case.get("prepared"):
            # both problems of the pair are set up (documented TDGLSolver objects) before either of them is run
            return tdgl.TDGLSolver(dev, opts(f"run-{tag}.h5", nsteps), applied_vector_potential=A, seed_solution=seed, **kw), chi
        tdgl.solve(dev, opts(f"run-{tag}.h5", nsteps), applied_vector_potential=A, seed_solution=seed, **kw)
        frames, _ = drivers.read_frames(f"run-{tag}.h5")
        return frames, chi

    try:
        fa, _ = run(0.0, 0.0, "a")
        fb, chi = run(case["shift"][0], case["shift"][1], "b")
        if case.get("prepared"):
            order = (fa, fb) if case["prepared"] == "ab" else (fb, fa)
            for sv in order:
                sv.solve()
            fa, _ = drivers.read_frames("run-a.h5")
            fb, _ = drivers.read_frames("run-b.h5")
    except RuntimeError as exc:
        if "converge" not in str(exc):
            raise
        res.count("pair_refused")
        res.outcome = "refused"
        return res
    worst = compare_frames(fa, fb, dev.mesh.areas, chi=chi)
    for k, v in worst.items():
        res.residual("run_" + k, v)
    # with screening both runs iterate a fixed point to a relative tolerance of 1e-6 and may stop after a different
    # number of iterations (rounding), so agreement is only expected to that level
    tol_run = TOLERANCES["run_screening"] if case["screening"] else TOLERANCES["run"]
    bad = {k: v for k, v in worst.items() if v > tol_run}
    if bad:
        res.violate("observables-depend-on-gauge", fields=",".join(sorted(bad)), biased=case["biased"], screening=case["screening"],
                    detail={"case": case, "worst": worst})
    res.count("run_frames_compared", len(fa))
    res.states.update(f"{res.key}:{int(fr['attrs']['step'])}" for fr in fa)
    res.transitions = 2 * nsteps
    res.executions = 4
    res.nontrivial = True
    res.outcome = f"run;biased={case['biased']};scr={case['screening']}"
    return res


def run_case(case):
    return run_op(case) if case["fam"] == "op" else run_run(case)
