"""C11 - the trajectory depends only on the physics and can be resumed.

Observer part: for each physics input, every recording configuration (save interval, output
destination, probes, progress reporting) is compared with one reference configuration: frames with
equal step label must be bitwise identical (equality is transitive, so all pairs are decided).
Resume part: for every split point of a fixed-step run, the resumed run's frame j must equal
frame N1+j of the uninterrupted run, bitwise.
"""
from __future__ import annotations

import itertools

import numpy as np

from ..core import CaseResult, case_key

ID = "C11"
LEVEL = "model_checking"
RULE = (
    "observer: physics inputs x (k in {1,2,3,5,N,N+1}) x output {temp,file} x probes {none,2} x progress {bar, every step, never}, "
    "each compared frame by frame with the reference configuration (k=1, file, no probes, no progress); "
    "resume: all split points N1 in 1..N-1 x k in {1,2,3} x screening {off,on} x seed {in-memory, reloaded}. "
    "Non-trivial = at least two step labels compared; distinct = case parameters."
)
STATE_DEF = "(physics, step label) pairs whose frames were compared"
ASSUMPTIONS = [
    "bitwise equality of HDF5 datasets read back with h5py",
    "memory-only runs (output_file=None) expose only their final state through the returned Solution",
    "resume uses a time-independent drive and a fixed time step, as the statement requires",
]
DSETS = ("psi", "mu", "supercurrent", "normal_current", "induced_vector_potential")
PHYS_Q = ["fixed", "adaptive", "tdep"]
PHYS_T = ["fixed", "adaptive", "tdep", "screen", "hole"]


def bound(tier):
    return {
        "quick": "3 physics inputs x 72 recording configurations; resume: N=8, 7 splits x k {1,2,3} x screening {off,on}",
        "thorough": "5 physics inputs (incl. screening, hole+terminals) x 72 configurations; resume: N=8 and N=11, all splits x k {1,2,3} x screening x seed {memory, reloaded}",
    }[tier]


def floors(tier):
    return {"distinct_nontrivial": 150, "outcomes": 3}


def cases(tier, seed):
    out = []
    phys = PHYS_Q if tier == "quick" else PHYS_T
    for p in phys:
        for kk, outp, probes, prog in itertools.product(("1", "2", "3", "5", "N", "N+1"), ("temp", "file"), (0, 2), ("bar", "every", "never")):
            out.append(dict(fam="obs", phys=p, k=kk, out=outp, probes=probes, prog=prog))
    if tier == "quick":
        # the screened problem with a reduced set of recording configurations
        for kk, outp, probes, prog in itertools.product(("1", "3", "N"), ("temp", "file"), (0, 2), ("bar", "never")):
            out.append(dict(fam="obs", phys="screen", k=kk, out=outp, probes=probes, prog=prog))
    for N in (8,) if tier == "quick" else (8, 11):
        for n1 in range(1, N):
            for k in (1, 2, 3):
                for scr in (False, True):
                    for seedkind in ("memory",) if tier == "quick" else ("memory", "reloaded"):
                        out.append(dict(fam="resume", N=N, n1=n1, k=k, screening=scr, seed=seedkind))
    for n1, k, scr in itertools.product(range(1, 8), (1, 3), (False, True)):
        out.append(dict(fam="resume", N=8, n1=n1, k=k, screening=scr, seed="memory", fixed_by="equal_bounds"))
    # the intermediate solution is looked at (post-processing, plots) before it seeds the continuation: observing does not change it
    for n1, scr, seedkind in itertools.product((3, 5), (False, True), ("memory", "reloaded")):
        out.append(dict(fam="resume", N=8, n1=n1, k=2, screening=scr, seed=seedkind, looked_at=True))
    return out


# ---------------------------------------------------------------------------------------------
_DEV = {}


def _device(phys, probes):
    """devices with and without probes share one Mesh object"""
    import tdgl

    from .. import drivers, zoo

    key = (phys, probes)
    if key in _DEV:
        return _DEV[key]
    if phys == "hole":
        base = zoo.device("G2", probes=False)
        pts = zoo.geometry("G2")["probe_points"]
    else:
        base = drivers.tiny(0, terminals=(phys in ("fixed", "screen")))
        pts = [(-1.2, 0.1), (1.1, 0.3)]
    if probes:
        dev = tdgl.Device(
            base.name, layer=base.layer.copy(), film=base.film.copy(), holes=[h.copy() for h in base.holes],
            terminals=[t.copy() for t in base.terminals], probe_points=pts, length_units=base.length_units,
        )
        dev.mesh = base.mesh
    else:
        dev = base
    _DEV[key] = dev
    return dev


def _ramp(x, y, z, *, t):
    s = 0.2 + 0.05 * t
    return np.stack([-s * y / 2, s * x / 2, np.zeros_like(x)], axis=1)


def _physics(phys, k, output_file, prog, solve_steps=8):
    import tdgl

    dt = 2.0**-5
    o = dict(solve_time=solve_steps * dt, dt_init=dt, dt_max=dt, adaptive=False, save_every=k, output_file=output_file,
             progress_interval=prog)
    kw = {}
    if phys == "fixed":
        kw = dict(applied_vector_potential=0.4, terminal_currents={"source": 3.0, "drain": -3.0})
    elif phys == "adaptive":
        o.update(adaptive=True, dt_init=0.08, dt_max=0.5, adaptive_window=2, adaptive_time_step_multiplier=0.5, solve_time=1.2)
        kw = dict(applied_vector_potential=1.6)
    elif phys == "tdep":
        kw = dict(applied_vector_potential=tdgl.Parameter(_ramp, time_dependent=True))
    elif phys == "screen":
        o.update(include_screening=True, screening_tolerance=1e-2)
        kw = dict(applied_vector_potential=0.3, terminal_currents={"source": 2.0, "drain": -2.0})
    elif phys == "hole":
        o.update(dt_init=dt / 4, dt_max=dt / 4, solve_time=solve_steps * dt / 4)
        kw = dict(applied_vector_potential=0.3, terminal_currents={"source": 0.5, "drain": -0.5})
    return tdgl.SolverOptions(**o), kw


_REF = {}


def _reference(phys):
    import tdgl

    from .. import drivers

    if phys in _REF:
        return _REF[phys]
    opts, kw = _physics(phys, 1, "ref.h5", 10**9)
    tdgl.solve(_device(phys, 0), opts, **kw)
    frames, _ = drivers.read_frames("ref.h5")
    ref = {int(fr["attrs"]["step"]): fr for fr in frames}
    _REF[phys] = ref
    return ref


def _cmp_frame(res, fr_data, fr_attrs, ref_fr, ctx):
    ok = True
    for d in ref_fr["data"]:
        if d not in fr_data:
            res.violate("dataset-missing", dataset=d, detail=ctx)
            ok = False
            continue
        a, b = np.asarray(fr_data[d]), np.asarray(ref_fr["data"][d])
        if a.shape != b.shape or not np.array_equal(a, b):
            err = float(np.abs(a - b).max()) if a.shape == b.shape else None
            res.violate("frame-differs", dataset=d, varied=ctx["varied"], final=ctx.get("final", False),
                        detail=dict(ctx, max_abs_diff=err))
            ok = False
            break
    if fr_attrs is not None:
        if float(fr_attrs["time"]) != float(ref_fr["attrs"]["time"]):
            res.violate("time-differs", varied=ctx["varied"], final=ctx.get("final", False),
                        detail=dict(ctx, got=float(fr_attrs["time"]), want=float(ref_fr["attrs"]["time"])))
            ok = False
    return ok


def run_obs(case):
    import tdgl

    from .. import drivers

    res = CaseResult()
    res.key = case_key(case)
    ref = _reference(case["phys"])
    N = max(ref)
    k = {"N": N, "N+1": N + 1}.get(case["k"]) or int(case["k"])
    prog = {"bar": 0, "every": 1, "never": 10**9}[case["prog"]]
    outp = "out.h5" if case["out"] == "file" else None
    opts, kw = _physics(case["phys"], k, outp, prog)
    dev_in = _device(case["phys"], case["probes"])
    # running a simulation must not change what it was given
    before = dict(
        film=dev_in.film.points.copy(), terms=[t.points.copy() for t in dev_in.terminals], holes=[h.points.copy() for h in dev_in.holes],
        probes=None if dev_in.probe_points is None else np.array(dev_in.probe_points), sites=dev_in.mesh.sites.copy(), areas=dev_in.mesh.areas.copy(),
        currents=dict(kw["terminal_currents"]) if isinstance(kw.get("terminal_currents"), dict) else None,
        layer=(dev_in.layer.london_lambda, dev_in.layer.coherence_length, dev_in.layer.thickness, dev_in.layer.gamma, dev_in.layer.u, dev_in.layer.z0),
        save_every=opts.save_every, solve_time=opts.solve_time, dt_init=opts.dt_init,
    )
    sol = tdgl.solve(dev_in, opts, **kw)
    changed = []
    if not np.array_equal(before["film"], dev_in.film.points) or any(not np.array_equal(a, t.points) for a, t in zip(before["terms"], dev_in.terminals)) or any(
        not np.array_equal(a, h.points) for a, h in zip(before["holes"], dev_in.holes)
    ):
        changed.append("polygons")
    if not np.array_equal(before["sites"], dev_in.mesh.sites) or not np.array_equal(before["areas"], dev_in.mesh.areas):
        changed.append("mesh")
    if before["probes"] is not None and not np.array_equal(before["probes"], dev_in.probe_points):
        changed.append("probe_points")
    if before["currents"] is not None and dict(kw["terminal_currents"]) != before["currents"]:
        changed.append("terminal_currents")
    if before["layer"] != (dev_in.layer.london_lambda, dev_in.layer.coherence_length, dev_in.layer.thickness, dev_in.layer.gamma, dev_in.layer.u, dev_in.layer.z0):
        changed.append("layer")
    if (before["save_every"], before["solve_time"], before["dt_init"]) != (opts.save_every, opts.solve_time, opts.dt_init):
        changed.append("options")
    if changed:
        res.violate("simulation-changes-its-inputs", what=",".join(changed), detail={"case": case})
    varied = ",".join(
        v for v, on in (("k", k != 1), ("temp", outp is None), ("probes", case["probes"] != 0), ("progress", case["prog"] != "never")) if on
    ) or "none"
    ncmp = 0
    if outp is None:
        td = sol.tdgl_data
        s = int(td.state["step"])
        if s not in ref:
            res.violate("label-not-in-reference", varied=varied, detail={"label": s, "N": N, "case": case})
        else:
            data = {d: getattr(td, d) for d in ref[s]["data"] if getattr(td, d, None) is not None}
            # fixed (time-independent) fields are returned by TDGLData as well; only compare what the
            # reference frame stores
            _cmp_frame(res, data, td.state, ref[s], dict(label=s, varied=varied, final=True, case=case))
            ncmp = 1
            res.states.add(f"{case['phys']}:{s}")
        if s != N:
            res.violate("final-label-differs", varied=varied, detail={"label": s, "N": N})
    else:
        frames, _ = drivers.read_frames("out.h5")
        labels = [int(fr["attrs"]["step"]) for fr in frames]
        if labels[-1] != N:
            res.violate("final-label-differs", varied=varied, detail={"labels": labels, "N": N})
        for fr, s in zip(frames, labels):
            if s not in ref:
                res.violate("label-not-in-reference", varied=varied, detail={"label": s, "N": N, "case": case})
                continue
            _cmp_frame(res, fr["data"], fr["attrs"], ref[s], dict(label=s, varied=varied, final=(s == labels[-1]), case=case))
            ncmp += 1
            res.states.add(f"{case['phys']}:{s}")
    res.transitions = ncmp
    res.executions = 2
    res.nontrivial = ncmp >= 2 or outp is None
    res.outcome = f"obs;{case['out']};probes={case['probes']}"
    return res


def run_resume(case):
    import tdgl

    from .. import drivers

    res = CaseResult()
    res.key = case_key(case)
    N, n1, k, scr = case["N"], case["n1"], case["k"], case["screening"]
    dt = 2.0**-5
    dev = drivers.tiny(2, terminals=True)
    eq = case.get("fixed_by") == "equal_bounds"
    if eq:
        # the documented other way of asking for a fixed step: adaptive=True with dt_init == dt_max; a step that is not a power of two
        # (the clock accumulates rounding) and solve times that end between two steps
        dt = 0.03

    def opts(steps, kk, path):
        return tdgl.SolverOptions(
            solve_time=(steps - 0.5 if eq else steps) * dt, dt_init=dt, dt_max=dt, adaptive=bool(eq), save_every=kk, output_file=path,
            include_screening=scr, screening_tolerance=1e-2, progress_interval=10**9,
        )

    kw = dict(applied_vector_potential=0.3, terminal_currents={"source": 2.0, "drain": -2.0})
    tdgl.solve(dev, opts(N, 1, "full.h5"), **kw)
    full, _ = drivers.read_frames("full.h5")
    full = {int(fr["attrs"]["step"]): fr for fr in full}
    s1 = tdgl.solve(dev, opts(n1, k, "first.h5"), **kw)
    if case["seed"] == "reloaded":
        s1 = tdgl.Solution.from_hdf5("first.h5")
    seed_before = {d: np.array(getattr(s1.tdgl_data, d)) for d in DSETS}
    if case.get("looked_at"):
        import matplotlib

        matplotlib.use("Agg")
        import matplotlib.pyplot as plt

        pts = np.array([[0.1, 0.2], [0.5, -0.3], [-0.4, 0.1]])
        looks = [
            lambda: s1.current_density, lambda: s1.vorticity, lambda: s1.times, lambda: s1.dynamics.dt, lambda: s1.boundary_phases(),
            lambda: s1.field_at_position(pts, zs=0.8), lambda: s1.vector_potential_at_position(pts, zs=0.8), lambda: s1.interp_current_density(pts),
            lambda: s1.interp_order_parameter(pts), lambda: s1.grid_current_density(grid_shape=(9, 7)),
            lambda: s1.plot_scalar_potential(), lambda: s1.plot_order_parameter(), lambda: s1.plot_currents(), lambda: s1.plot_vorticity(),
            lambda: s1.plot_field_at_positions(pts, zs=0.8), lambda: s1.dynamics.plot(), lambda: s1.dynamics.plot_dt(),
        ]
        for look in looks:
            try:
                look()
                res.count("looks_at_the_seed")
            except Exception:  # noqa: BLE001 - a post-processing routine that does not run in this environment is not the subject here
                res.count("looks_that_raised")
            plt.close("all")
        changed = [d for d in DSETS if not np.array_equal(seed_before[d], getattr(s1.tdgl_data, d))]
        if changed:
            res.violate("solution-changed-by-looking-at-it", dataset=changed[0], screening=scr, detail={"case": case, "changed": changed})
    # the same seed object is used twice (with another recording configuration in between): using a saved state must not change it
    tdgl.solve(dev, opts(N - n1, (k % 3) + 1, "other.h5"), seed_solution=s1, **kw)
    changed = [d for d in DSETS if not np.array_equal(seed_before[d], getattr(s1.tdgl_data, d))]
    if changed:
        res.violate("seed-solution-changed-by-being-used", dataset=changed[0], screening=scr, detail={"case": case, "changed": changed})
    tdgl.solve(dev, opts(N - n1, k, "second.h5"), seed_solution=s1, **kw)
    second, _ = drivers.read_frames("second.h5")
    other, _ = drivers.read_frames("other.h5")
    for fr in other:
        j = int(fr["attrs"]["step"])
        want = full.get(n1 + j)
        if want is not None:
            for d in DSETS:
                if not np.array_equal(np.asarray(fr["data"][d]), np.asarray(want["data"][d])):
                    res.violate("resume-differs", dataset=d, at_seed_frame=(j == 0), screening=scr,
                                detail={"case": case, "which": "first use of the seed", "resumed_label": j})
                    break
    for fr in second:
        j = int(fr["attrs"]["step"])
        want = full.get(n1 + j)
        res.transitions += 1
        res.states.add(f"resume:{n1}+{j}")
        if want is None:
            res.violate("resumed-run-too-long", detail={"label": j, "n1": n1, "N": N})
            continue
        for d in DSETS:
            a, b = np.asarray(fr["data"][d]), np.asarray(want["data"][d])
            if not np.array_equal(a, b):
                res.violate(
                    "resume-differs", dataset=d, at_seed_frame=(j == 0), screening=scr,
                    detail={"case": case, "resumed_label": j, "uninterrupted_label": n1 + j, "max_abs_diff": float(np.abs(a - b).max())},
                )
                break
    if eq:
        # every step of both runs has the requested length
        for nm in ("full.h5", "first.h5", "second.h5"):
            prev_label = 0
            for fr in drivers.read_frames(nm)[0]:
                rec = fr.get("records") or {}
                label = int(fr["attrs"]["step"])
                used = np.atleast_1d(rec["dt"])[: label - prev_label] if "dt" in rec else np.array([])  # (the buffer of the last frame may be longer than the steps it holds)
                prev_label = label
                if not np.all(used == dt):
                    res.violate("fixed-step-run-used-another-step", detail={"file": nm, "dts": used.tolist()})
                    break
    if int(second[-1]["attrs"]["step"]) != N - n1:
        res.violate("resumed-run-length", detail={"last": int(second[-1]["attrs"]["step"]), "want": N - n1})
    res.executions = 4
    res.nontrivial = True
    res.outcome = f"resume;scr={scr}"
    return res


def run_case(case):
    return run_obs(case) if case["fam"] == "obs" else run_resume(case)
