"""C05 - recorded frames, times and per-step records are consistent.

E3 environment-script exploration of the real Runner + RunningState + DataHandler + Solution +
DynamicsData against RM-recorder (mc/ref/recorder.py).  Family "scripted": the update is the
scripted environment (drivers.ScriptedSolver).  Family "real": the real update under an adaptive
step with retries, with a by-hand re-execution through `update` as the differential oracle.
"""
from __future__ import annotations

import itertools

import numpy as np

from ..core import CaseResult, case_key
from ..ref import recorder as RM

ID = "C05"
LEVEL = "model_checking"
RULE = (
    "all (k, N, thermalisation, probes, screening, dt-script) histories within the tier bound, "
    "deviation-bounded scripts (alternatives dt/4 = retry, 2dt = growth); every frame and every "
    "per-step column compared with the recorder specification. Non-trivial = the run recorded at "
    "least two frames; distinct = distinct case parameters."
)
STATE_DEF = "(stage, step mod k, running-state cursor) seen at each update call"
ASSUMPTIONS = [
    "scripted family: TDGLSolver.update is replaced by the scripted environment; solve(), Runner, RunningState, "
    "DataHandler, Solution and DynamicsData are the real code",
    "time steps are powers of two so that sums of answers are exact in binary floating point",
    "the specification says nothing about the dt attribute of a frame, timestamps, or the number of updates executed beyond N",
]
TOLERANCES = {"time": 1e-12}
DT0 = 2.0**-6
ALTS = (0.25, 2.0)


def bound(tier):
    return {
        "quick": "N<=6, k in 1..N+2, thermal {0,1,3}, probes {0,2,3}, screening {off,on}; <=1 deviation; real-update family N=5",
        "thorough": "N<=12, k in 1..N+2, thermal {0,1,3}, probes {0,2,3}, screening {off,on}; <=2 deviations; real-update family N in {5,8}",
    }[tier]


def floors(tier):
    return {"distinct_nontrivial": 200, "outcomes": 4, "states": 10, "count:k_divides_N": 20, "count:k_not_divides_N": 20,
            "count:real_steps_with_retries": 10}


def cases(tier, seed):
    nmax = 6 if tier == "quick" else 12
    maxdev = 1 if tier == "quick" else 2
    out = []
    for N in range(nmax + 1):
        for k in range(1, N + 3):
            for thermal, probes, scr in itertools.product((0, 1, 3), (0, 2, 3), (False, True)):
                out.append(dict(fam="scripted", N=N, k=k, thermal=thermal, probes=probes, screening=scr, devs=[]))
            for thermal in (0, 1):
                for nd in range(1, maxdev + 1):
                    for pos in itertools.combinations(range(N + 1), nd):
                        for alt in itertools.product(range(len(ALTS)), repeat=nd):
                            out.append(
                                dict(
                                    fam="scripted",
                                    N=N,
                                    k=k,
                                    thermal=thermal,
                                    probes=2,
                                    screening=True,
                                    devs=[[p, a] for p, a in zip(pos, alt)],
                                )
                            )
    # long files: frame names with two and three digits (10, 11, ..., 100, 101): order and range of frames are numeric
    for N, k in ((10, 1), (11, 1), (12, 1), (25, 1), (25, 2), (101, 1), (120, 1), (230, 2)):
        out.append(dict(fam="scripted", N=N, k=k, thermal=0, probes=2, screening=True, devs=[]))
        out.append(dict(fam="scripted", N=N, k=k, thermal=1, probes=0, screening=False, devs=[[N // 2, 0]]))
    # the same histories at very small time steps (a record is valid because it was written, not because dt is "large")
    for N in (1, 2, 3, 5) if tier == "quick" else range(0, nmax + 1):
        for k in sorted({1, 2, 3, N + 1}):
            for expo in (-30, -40):
                out.append(dict(fam="scripted", N=N, k=k, thermal=0, probes=2, screening=True, devs=[], dt_exp=expo))
                out.append(dict(fam="scripted", N=N, k=k, thermal=1, probes=0, screening=False, devs=[[0, 0]] if N else [], dt_exp=expo))
    for Nr in (5,) if tier == "quick" else (5, 8):
        for k in range(1, Nr + 3):
            for drive in ("field", "current"):
                for thermal in (0, 2):
                    out.append(dict(fam="real", N=Nr, k=k, drive=drive, thermal=thermal))
    out += _prior_cases()
    return out


# ---------------------------------------------------------------------------------------------
def _prior_cases():
    out = []
    for N, k, probes, scr in ((3, 1, 2, True), (3, 2, 0, False), (5, 2, 2, True), (5, 6, 2, False), (5, 5, 3, True), (6, 3, 2, True)):
        out.append(dict(fam="scripted", N=N, k=k, thermal=0, probes=probes, screening=scr, devs=[], prior=True))
    return out


def _records_concat(frames):
    from ..core import LibraryOutputError

    try:
        return _records_concat_(frames)
    except (IndexError, ValueError, KeyError, TypeError) as exc:
        raise LibraryOutputError(f"record-table:{type(exc).__name__}") from exc


def _records_concat_(frames):
    """Concatenate the per-frame record buffers the way they are defined to be read: entries with
    dt > 0 are valid."""
    cols = {}
    per_frame = []
    for fr in frames:
        rec = fr["records"]
        if rec is None:
            per_frame.append(None)
            continue
        dt = np.atleast_1d(rec["dt"]).astype(float)
        mask = dt > 0
        d = {"dt": dt[mask]}
        for c, v in rec.items():
            if c == "dt":
                continue
            v = np.asarray(v, float)
            if c in ("mu", "theta"):
                v = v.reshape(-1, len(dt)) if v.ndim < 2 else v
                d[c] = v[:, mask]
            else:
                d[c] = np.atleast_1d(v)[mask]
        per_frame.append(d)
        for c, v in d.items():
            cols.setdefault(c, []).append(v)
    allc = {}
    for c, vs in cols.items():
        allc[c] = np.concatenate(vs, axis=-1) if vs else np.array([])
    return allc, per_frame


def _expected_cols(js, probes, screening):
    from ..drivers import enc_mu, enc_theta

    d = {}
    if probes:
        d["mu"] = np.array([[enc_mu(j, p) for j in js] for p in range(probes)], float).reshape(probes, len(js))
        d["theta"] = np.array([[enc_theta(j, p) for j in js] for p in range(probes)], float).reshape(probes, len(js))
    if screening:
        d["screening_iterations"] = np.array([j + 1 for j in js], float)
    return d


def run_scripted(case):
    import tdgl
    from .. import drivers

    res = CaseResult()
    res.key = case_key(case)
    N0, k, thermal, probes, scr = case["N"], case["k"], case["thermal"], case["probes"], case["screening"]
    DT0 = 2.0 ** case.get("dt_exp", -6)
    script = [DT0] * (N0 + 4)
    for pos, alt in case["devs"]:
        script[pos] = DT0 * ALTS[alt]
    T = N0 * DT0
    exp = RM.expected_run(k, T, script, DT0)
    N = exp["N"]
    flags = {"k_eq_1": k == 1, "N_eq_0": N == 0, "k_divides_N": N % k == 0, "probes": probes, "thermal": bool(thermal)}
    res.count("k_divides_N" if N % k == 0 else "k_not_divides_N")
    dev = drivers.tiny(probes)
    opts = tdgl.SolverOptions(
        solve_time=T,
        skip_time=thermal * DT0,
        dt_init=DT0,
        dt_max=1.0,
        save_every=k,
        output_file="out.h5",
        include_screening=scr,
        progress_interval=10**9,
    )
    seen = []

    def hook(stage, j, state, rs):
        seen.append((stage, int(state["step"]) % k, int(rs.step)))

    if case.get("prior"):
        # the output path has a history in this process: an earlier run with other (twice as long) time steps and the same number of
        # steps and frames was written to it, loaded and looked at, then the file was removed by the user before this run
        import os

        opts0 = tdgl.SolverOptions(solve_time=2 * T, skip_time=0.0, dt_init=2 * DT0, dt_max=1.0, save_every=k, output_file="out.h5", include_screening=scr, progress_interval=10**9)
        sol0 = drivers.make_scripted_solver(dev, opts0, [2 * DT0] * (N0 + 4), 2 * DT0).solve()
        if sol0 is not None:
            _ = (np.asarray(sol0.times), sol0.dynamics.dt)
            again = tdgl.Solution.from_hdf5(sol0.path)
            _ = (np.asarray(again.times), again.dynamics.dt)
            os.remove(sol0.path)
        res.count("runs_to_a_path_used_before")
    solver = drivers.make_scripted_solver(dev, opts, script, DT0, hook=hook)
    sol = None
    try:
        sol = solver.solve()
    except Exception as exc:  # noqa: BLE001
        res.violate(
            "solve-raises",
            exc=type(exc).__name__,
            k_eq_1=flags["k_eq_1"],
            N_eq_0=flags["N_eq_0"],
            detail={"msg": str(exc)[:300], "case": case},
        )
    res.states.update(f"{s}" for s in seen)
    res.transitions = len(seen)

    frames, top = drivers.read_frames("out.h5")
    labels = [int(fr["attrs"]["step"]) for fr in frames]
    names = [fr["name"] for fr in frames]
    res.nontrivial = len(frames) >= 2
    res.outcome = f"frames={'many' if len(frames) > 2 else len(frames)};final={'extra' if N % k else 'regular'};dev={len(case['devs'])};th={bool(thermal)}"

    # (a) labels and group names
    if names != [str(i) for i in range(len(frames))]:
        res.violate("group-names", detail={"names": names})
    if labels != exp["labels"]:
        res.violate(
            "frame-labels",
            k_divides_N=flags["k_divides_N"],
            n_obs_minus_exp=len(labels) - len(exp["labels"]),
            detail={"expected": exp["labels"], "observed": labels, "case": case},
        )
    else:
        # (b) content and times
        f0 = frames[0]
        for i, (fr, s) in enumerate(zip(frames, labels)):
            is_final = i == len(frames) - 1
            t_obs = float(fr["attrs"]["time"])
            t_exp = exp["times"][i]
            res.residual("time", abs(t_obs - t_exp))
            if abs(t_obs - t_exp) > 1e-9 * DT0:
                res.violate(
                    "frame-time",
                    frame="final" if is_final else "inner",
                    k_divides_N=flags["k_divides_N"],
                    detail={"label": s, "expected": t_exp, "observed": t_obs, "case": case},
                )
            for dname in ("psi", "mu", "supercurrent", "normal_current", "induced_vector_potential"):
                delta = np.asarray(fr["data"][dname]) - np.asarray(f0["data"][dname])
                delta = np.real(delta).ravel()
                c = float(delta[0])
                if not np.all(delta == c):
                    res.violate("frame-content-nonuniform", dataset=dname, detail={"label": s, "case": case})
                    break
                if c != s:
                    res.violate(
                        "frame-content",
                        frame="final" if is_final else "inner",
                        k_divides_N=flags["k_divides_N"],
                        observed_minus_expected=int(round(c - s)),
                        detail={"label": s, "dataset": dname, "expected_updates": s, "observed_updates": c, "case": case},
                    )
                    break
        if "records" in f0 and f0["records"] is not None:
            res.violate("records-in-frame-0", detail={"case": case})

    # (c) per-step records at the file level
    allc, per_frame = _records_concat(frames)
    exp_dt = np.array(exp["dts"], float)
    got_dt = allc.get("dt", np.array([]))
    if len(got_dt) != len(exp_dt) or not np.array_equal(got_dt, exp_dt):
        res.violate(
            "records-dt",
            k_divides_N=flags["k_divides_N"],
            len_obs_minus_exp=int(len(got_dt) - len(exp_dt)),
            detail={"expected": exp_dt, "observed": got_dt, "case": case},
        )
    else:
        ecols = _expected_cols(range(N), probes, scr)
        for c, ev in ecols.items():
            gv = allc.get(c)
            if gv is None and ev.size == 0:
                continue  # nothing recorded and nothing expected
            if gv is None or gv.shape != ev.shape or not np.array_equal(gv, ev):
                res.violate("records-column", column=c, detail={"expected": ev, "observed": gv, "case": case})
        for c in allc:
            if c != "dt" and c not in ecols:
                res.violate("records-unexpected-column", column=c)
        # per frame: exactly the answers of [prev label, label)
        if labels == exp["labels"]:
            prev = 0
            for fr, s, pf in zip(frames, labels, per_frame):
                if s == 0:
                    continue
                want = np.array([script[j] for j in range(prev, s)], float)
                if pf is None or not np.array_equal(pf["dt"], want):
                    res.violate("records-frame-slice", detail={"label": s, "expected": want, "observed": None if pf is None else pf["dt"]})
                    break
                prev = s
    # thermalisation leaks
    for c, v in allc.items():
        if c != "dt" and v.size and np.any(np.abs(v) >= drivers.THERMAL_CODE / 2):
            res.violate("thermal-record-leak", column=c, detail={"case": case})

    # (d) Solution level
    if sol is not None:
        ft = np.array([float(fr["attrs"]["time"]) for fr in frames])
        st = sol.times
        if st is None or len(st) != len(ft) or np.max(np.abs(np.asarray(st, float) - ft)) > 1e-9 * DT0:
            res.violate(
                "solution-times",
                same_length=bool(st is not None and len(st) == len(ft)),
                detail={"frame_times": ft, "solution_times": st, "case": case},
            )
        dyn = sol.dynamics
        if dyn is None or not np.array_equal(np.asarray(dyn.dt, float), got_dt):
            res.violate("solution-dynamics-dt", detail={"file": got_dt, "solution": None if dyn is None else dyn.dt})
        else:
            for c in ("mu", "theta", "screening_iterations"):
                gv = getattr(dyn, c)
                fv = allc.get(c)
                if (gv is None) != (fv is None) or (gv is not None and not np.array_equal(np.asarray(gv, float), fv)):
                    res.violate("solution-dynamics-column", column=c, detail={"file": fv, "solution": gv})
            if len(got_dt) and not np.allclose(dyn.time, np.cumsum(got_dt), rtol=0, atol=1e-9 * DT0):
                res.violate("solution-dynamics-time")
        # every frame loads through the Solution
        try:
            for i, s in enumerate(labels):
                sol.solve_step = i
                if int(sol.tdgl_data.state["step"]) != s:
                    res.violate("solution-step-lookup", detail={"index": i, "label": s})
                    break
                # whichever frame is loaded, the reported times and per-step records are those of the whole run
                st_i = sol.times
                if st_i is None or len(st_i) != len(ft) or np.max(np.abs(np.asarray(st_i, float) - ft)) > 1e-9 * DT0:
                    res.violate("solution-times", same_length=bool(st_i is not None and len(st_i) == len(ft)), loaded_frame=("final" if i == len(labels) - 1 else "earlier"),
                                detail={"loaded_index": i, "case": case})
                    break
                if sol.dynamics is None or not np.array_equal(np.asarray(sol.dynamics.dt, float), got_dt):
                    res.violate("solution-dynamics-dt", loaded_frame=("final" if i == len(labels) - 1 else "earlier"), detail={"loaded_index": i, "case": case})
                    break
        except Exception as exc:  # noqa: BLE001
            res.violate("solution-load-frame", exc=type(exc).__name__, detail={"msg": str(exc)[:200]})
        # the caller goes on using its options object for the next run (other save interval, other times): the solution it holds
        # still reports the frame times of the run it came from
        opts.save_every, opts.solve_time, opts.skip_time, opts.dt_init = k + 1, 3.0 * T + 1.0, 0.0, 2.0 * DT0
        st = sol.times
        if st is None or len(st) != len(ft) or np.max(np.abs(np.asarray(st, float) - ft)) > 1e-9 * DT0:
            res.violate("solution-times", same_length=bool(st is not None and len(st) == len(ft)), after_the_callers_options_object_was_edited=True,
                        detail={"frame_times": ft, "solution_times": st, "case": case})
    return res


# ---------------------------------------------------------------------------------------------
def _real_inputs(drive, thermal, k, T, probes=2):
    import tdgl

    opts = tdgl.SolverOptions(
        solve_time=T,
        skip_time=0.0,
        dt_init=(0.5 if drive == "field" else 1.0),
        dt_max=2.0,
        adaptive=True,
        adaptive_window=2,
        max_solve_retries=12,
        adaptive_time_step_multiplier=0.5,
        save_every=k,
        output_file="out.h5",
        progress_interval=10**9,
    )
    kw = {}
    if drive == "field":
        kw["applied_vector_potential"] = 1.6
    else:
        kw["terminal_currents"] = {"source": 14.0, "drain": -14.0}
        kw["applied_vector_potential"] = 1.0
    return opts, kw


def run_real(case):
    import tdgl
    from .. import drivers

    res = CaseResult()
    res.key = case_key(case)
    Nr, k, drive, thermal = case["N"], case["k"], case["drive"], case["thermal"]
    dev = drivers.tiny(2, terminals=(drive == "current"))
    # reference trajectory by hand: thermalisation is simply more updates of the same dynamics,
    # so with thermal>0 we compare only the structure and the *differences* are re-derived below.
    opts0, kw = _real_inputs(drive, thermal, k, 1.0)
    ref = tdgl.TDGLSolver(dev, opts0, **kw)
    states, dts = drivers.hand_step(ref, Nr + 2)
    t = np.concatenate([[0.0], np.cumsum(dts)])  # same left-to-right accumulation as the loop
    tt = [0.0]
    for d in dts:
        tt.append(tt[-1] + d)
    T = 0.5 * (tt[Nr - 1] + tt[Nr])
    res.count("real_steps_with_retries", sum(1 for r in ref.env_refusals["per_step"][:Nr] if r))
    opts, kw = _real_inputs(drive, thermal, k, T)
    if thermal:
        # thermalise for exactly `thermal` steps of the same dynamics: the main stage then starts
        # from states[thermal']; we only check structure + self-consistency of times here.
        opts.skip_time = 0.5 * (tt[thermal - 1] + tt[thermal])
    try:
        sol = tdgl.solve(dev, opts, **kw)
    except Exception as exc:  # noqa: BLE001
        res.violate("solve-raises", exc=type(exc).__name__, k_eq_1=(k == 1), N_eq_0=False, detail={"msg": str(exc)[:300], "case": case})
        sol = None
    frames, _ = drivers.read_frames("out.h5")
    labels = [int(fr["attrs"]["step"]) for fr in frames]
    res.nontrivial = len(frames) >= 2
    res.states.update(f"real:{s % k}" for s in labels)
    res.transitions = Nr
    res.outcome = f"real;final={'extra' if Nr % k else 'regular'};th={bool(thermal)}"
    res.count("k_divides_N" if Nr % k == 0 else "k_not_divides_N")
    allc, _ = _records_concat(frames)
    got_dt = allc.get("dt", np.array([]))
    if not thermal:
        exp_labels = RM.expected_labels(k, Nr)
        if labels != exp_labels:
            res.violate("frame-labels", k_divides_N=(Nr % k == 0), n_obs_minus_exp=len(labels) - len(exp_labels),
                        detail={"expected": exp_labels, "observed": labels, "case": case})
        else:
            for i, (fr, s) in enumerate(zip(frames, labels)):
                is_final = i == len(frames) - 1
                if abs(float(fr["attrs"]["time"]) - tt[s]) > 1e-12:
                    res.violate("frame-time", frame="final" if is_final else "inner", k_divides_N=(Nr % k == 0),
                                detail={"label": s, "expected": tt[s], "observed": float(fr["attrs"]["time"])})
                for dname in ("psi", "mu", "supercurrent", "normal_current"):
                    if not np.array_equal(fr["data"][dname], states[s][dname]):
                        # which update count does it hold?
                        held = [q for q in range(len(states)) if np.array_equal(fr["data"][dname], states[q][dname])]
                        res.violate(
                            "frame-content",
                            frame="final" if is_final else "inner",
                            k_divides_N=(Nr % k == 0),
                            observed_minus_expected=(held[0] - s) if held else None,
                            detail={"label": s, "dataset": dname, "holds_updates": held, "case": case},
                        )
                        break
        want = np.array(dts[:Nr])
        if len(got_dt) != len(want) or not np.array_equal(got_dt, want):
            res.violate("records-dt", k_divides_N=(Nr % k == 0), len_obs_minus_exp=int(len(got_dt) - len(want)),
                        detail={"expected": want, "observed": got_dt, "case": case})
    else:
        # structure only: labels {0,k,..}U{N'}, times = partial sums of the recorded dt column
        Np = labels[-1] if labels else 0
        if labels != RM.expected_labels(k, Np):
            res.violate("frame-labels", k_divides_N=(Np % k == 0), n_obs_minus_exp=0, detail={"observed": labels})
        acc = [0.0]
        for d in got_dt:
            acc.append(acc[-1] + d)
        for fr, s in zip(frames, labels):
            if s < len(acc) and abs(float(fr["attrs"]["time"]) - acc[s]) > 1e-12:
                res.violate("frame-time", frame="thermal-run", k_divides_N=(Np % k == 0), detail={"label": s})
        if len(got_dt) != Np:
            res.violate("records-dt", k_divides_N=(Np % k == 0), len_obs_minus_exp=int(len(got_dt) - Np), detail={"case": case})
        if frames and float(frames[0]["attrs"]["time"]) != 0.0:
            res.violate("time-not-restarted")
        if frames and frames[-1]["attrs"]["time"] < opts.solve_time:
            res.violate("stopped-early")
        if len(frames) > 1 and float(frames[-1]["attrs"]["time"]) - got_dt[-1] >= opts.solve_time and len(got_dt) == Np:
            res.violate("stopped-late", detail={"case": case})
    if sol is not None:
        ft = np.array([float(fr["attrs"]["time"]) for fr in frames])
        st = sol.times
        if st is None or len(st) != len(ft) or np.max(np.abs(np.asarray(st, float) - ft)) > 1e-12:
            res.violate("solution-times", same_length=bool(st is not None and len(st) == len(ft)),
                        detail={"frame_times": ft, "solution_times": st, "case": case})
    return res


def run_case(case):
    if case["fam"] == "scripted":
        return run_scripted(case)
    return run_real(case)
