"""C10 - refreshing link variables in place equals rebuilding the operators.

E2: explicit-state BFS over histories of MeshOperators.set_link_exponents (state = every mutable
field of the object), plus all histories up to a depth without de-duplication.
E3: the real TDGLSolver.update driven by a scripted time-dependent vector potential; the
Laplacian *in use* is captured at the call of solve_for_psi_squared and compared with a rebuild.
"""
from __future__ import annotations

import hashlib
import itertools

import numpy as np

from ..core import CaseResult, case_key

ID = "C10"
LEVEL = "model_checking"
RULE = (
    "op family: per (mesh, pinned-set) BFS to fixpoint over set_link_exponents histories on a 9-letter alphabet of "
    "potentials (zero, uniform, uniform again as a new object, uniform*(1+5e-6), linear, wrapping, seeded per-edge, changed on half of the edges, changed on one edge) "
    "+ all histories of length <= depth without de-duplication; solver family: all scripts of per-step relative "
    "increments {0, 1e-12, 5e-6, 1e-3, 0.7} of a time-dependent field of length L, with and without screening. "
    "Non-trivial = history contains at least two different potentials."
)
STATE_DEF = "sha256 of psi_gradient/psi_laplacian (data, indices, indptr), link_exponents, laplacian_free_rows"
ASSUMPTIONS = [
    "the oracle is a fresh MeshOperators built by the same first-call code path (differential); absolute correctness of the builders is C03/C04",
    "solver family observes the Laplacian passed to solve_for_psi_squared (documented static method) at call time",
]
TOLERANCES = {"entry": 1e-14}
ALPHABET = ["zero", "uni", "uni2", "uni_eps", "lin", "wrap", "rnd", "half", "one_edge"]
INCS = [0.0, 5e-6, 1e-3, 0.7, 1e-12]


def bound(tier):
    return {
        "quick": "op: 5 meshes x 4 pinned sets, BFS fixpoint + all histories <= 3; solver: all 4^5 scripts (no screening) + 4^3 (screening)",
        "thorough": "op: 8 meshes x 4 pinned sets, BFS fixpoint + all histories <= 4; solver: all 4^6 scripts (no screening) + 4^4 (screening), 2 devices",
    }[tier]


def floors(tier):
    return {"distinct_nontrivial": 50, "states": 20, "outcomes": 2}


MESHES_Q = ["tiny", "G1", "G3", "hex43", "ann"]
MESHES_T = MESHES_Q + ["G2", "G7s", "rd40"]
PINNED = ["none", "term_fix", "term_nofix", "interior"]


def cases(tier, seed):
    out = []
    meshes = MESHES_Q if tier == "quick" else MESHES_T
    depth = 3 if tier == "quick" else 4
    for m in meshes:
        for p in PINNED:
            out.append(dict(fam="bfs", mesh=m, pinned=p, seed=seed))
            # undeduplicated histories, split by first letter to spread over workers
            for first in ALPHABET:
                out.append(dict(fam="hist", mesh=m, pinned=p, first=first, depth=depth, seed=seed))
    # two operator objects alive on one mesh, events interleaved between them
    for m in meshes[:3] if tier == "quick" else meshes:
        for p1, p2 in itertools.permutations(PINNED, 2):
            out.append(dict(fam="pair", mesh=m, pinned=[p1, p2], seed=seed))
    L = 5 if tier == "quick" else 6
    Ls = 3 if tier == "quick" else 4
    devs = ["tiny"] if tier == "quick" else ["tiny", "G1"]
    for d in devs:
        for pre in itertools.product(range(len(INCS)), repeat=2):
            out.append(dict(fam="solver", dev=d, screening=False, prefix=list(pre), L=L - 1 if tier == "quick" else L))
            out.append(dict(fam="solver", dev=d, screening=False, prefix=list(pre), L=(L - 2 if tier == "quick" else L - 1), fail_last=True))
        for pre in itertools.product(range(len(INCS)), repeat=1):
            out.append(dict(fam="solver", dev=d, screening=True, prefix=list(pre), L=Ls))
    return out


# ---------------------------------------------------------------------------------------------
_MESH = {}


def get_mesh(name):
    """returns (mesh, terminal_sites)"""
    if name in _MESH:
        return _MESH[name]
    import tdgl
    from tdgl.finite_volume import Mesh

    from .. import drivers, zoo

    if name == "tiny":
        d = drivers.tiny(0, terminals=True)
        mesh, term = d.mesh, np.concatenate([t.site_indices for t in d.terminal_info()])
    elif name in ("G1", "G2", "G3"):
        d = zoo.device(name)
        mesh, term = d.mesh, np.concatenate([t.site_indices for t in d.terminal_info()])
    elif name == "G7s":
        d = zoo.device("G7", smooth=3)
        mesh, term = d.mesh, np.concatenate([t.site_indices for t in d.terminal_info()])
    else:
        if name == "hex43":
            p, t = zoo.hex_lattice(4, 3)
        elif name == "ann":
            p, t = zoo.annulus(3, 9)
        elif name == "rd40":
            p, t = zoo.random_delaunay(40, 3)
        mesh = Mesh.from_triangulation(p, t)
        term = mesh.boundary_indices[:3]
    _MESH[name] = (mesh, np.asarray(term, dtype=np.int64))
    return _MESH[name]


def potentials(mesh, seed):
    c = mesh.edge_mesh.centers
    n = len(c)
    rng = np.random.default_rng([seed, 1010])
    uni = np.tile(np.array([0.3, -0.2]), (n, 1))
    lin = 0.35 * np.column_stack([-c[:, 1], c[:, 0]])
    half = uni.copy()
    half[n // 2 :] = lin[n // 2 :]  # equals "uni" on half of the edges and "lin" on the others
    one = uni.copy()
    one[n // 3] = [1.7, -0.9]  # differs from "uni" on a single edge
    return {
        "zero": np.zeros((n, 2)),
        "uni": uni,
        "uni2": uni.copy(),
        "uni_eps": uni * (1 + 5e-6),
        "lin": lin,
        "wrap": 40.0 * lin + 3.0,
        "rnd": rng.normal(size=(n, 2)),
        "half": half,
        "one_edge": one,
    }


def fresh_ops(mesh, pinned_kind, term):
    from tdgl.finite_volume.operators import MeshOperators
    from tdgl.solver.options import SparseSolver

    if pinned_kind == "none":
        fixed, fix = np.array([], dtype=np.int64), True
    elif pinned_kind == "term_fix":
        fixed, fix = term, True
    elif pinned_kind == "term_nofix":
        fixed, fix = term, False
    else:  # one interior site
        interior = np.setdiff1d(np.arange(len(mesh.sites)), mesh.boundary_indices)
        fixed, fix = interior[:1].astype(np.int64), True
    ops = MeshOperators(mesh, SparseSolver.SUPERLU, fixed_sites=fixed, fix_psi=fix)
    # build_operators() (the potential-independent operators and the LU factorisation) is not needed by the refresh path;
    # it is exercised by the solver family
    return ops


def canon(ops):
    h = hashlib.sha256()
    for m in (ops.psi_gradient, ops.psi_laplacian):
        if m is None:
            h.update(b"none")
            continue
        m2 = m.copy()
        m2.sort_indices()
        h.update(np.ascontiguousarray(m2.data).tobytes())
        h.update(np.ascontiguousarray(m2.indices).tobytes())
        h.update(np.ascontiguousarray(m2.indptr).tobytes())
    for a in (ops.link_exponents, ops.laplacian_free_rows):
        h.update(b"none" if a is None else np.ascontiguousarray(a).tobytes())
    return h.hexdigest()[:20]


def compare(ops, ref, res, ctx):
    ok = True
    for nm in ("psi_gradient", "psi_laplacian"):
        a = getattr(ops, nm).toarray()
        b = getattr(ref, nm).toarray()
        scale = max(1.0, float(np.abs(b).max()))
        err = float(np.abs(a - b).max()) / scale
        res.residual("entry", err)
        if err > TOLERANCES["entry"]:
            ok = False
            bad = np.argwhere(np.abs(a - b) > TOLERANCES["entry"] * scale)
            rows = np.unique(bad[:, 0])
            res.violate(
                "stale-operator",
                operator=nm,
                pinned=ctx["pinned"],
                magnitude="tiny" if err < 1e-4 else "gross",
                detail=dict(ctx, max_err=err, n_bad=len(bad), first_bad=bad[:5], rows=rows[:10]),
            )
    return ok


def build(mesh, pinned, term, pots, hist):
    ops = fresh_ops(mesh, pinned, term)
    for ev in hist:
        ops.set_link_exponents(pots[ev])
    return ops


def run_bfs(case):
    import collections

    res = CaseResult()
    res.key = case_key(case)
    mesh, term = get_mesh(case["mesh"])
    pots = potentials(mesh, case["seed"])
    refs = {}
    for a in ALPHABET:
        r = fresh_ops(mesh, case["pinned"], term)
        r.set_link_exponents(pots[a])
        refs[a] = r
    seen = {canon(build(mesh, case["pinned"], term, pots, []))}
    frontier = collections.deque([[]])
    maxdepth = 0
    while frontier:
        hist = frontier.popleft()
        for ev in ALPHABET:
            nxt = build(mesh, case["pinned"], term, pots, hist + [ev])
            res.transitions += 1
            compare(nxt, refs[ev], res, dict(mesh=case["mesh"], pinned=case["pinned"], history=hist + [ev]))
            k = canon(nxt)
            if k not in seen:
                seen.add(k)
                frontier.append(hist + [ev])
                maxdepth = max(maxdepth, len(hist) + 1)
        if len(seen) > 200:
            res.violate("state-explosion", detail={"states": len(seen)})
            break
    res.states.update(f"{case['mesh']}/{case['pinned']}/{s}" for s in seen)
    res.nontrivial = True
    res.executions = res.transitions
    res.outcome = f"bfs-depth{maxdepth}"
    res.count("bfs_states", len(seen))
    return res


def run_hist(case):
    res = CaseResult()
    res.key = case_key(case)
    mesh, term = get_mesh(case["mesh"])
    pots = potentials(mesh, case["seed"])
    refs = {}
    for a in ALPHABET:
        r = fresh_ops(mesh, case["pinned"], term)
        r.set_link_exponents(pots[a])
        refs[a] = r

    # depth-first over all histories starting with `first`, re-using the live object along a path
    # (the object *is* the history); every node is compared with the rebuild.
    def rec(hist, depth):
        ops = build(mesh, case["pinned"], term, pots, hist)
        res.transitions += 1
        res.states.add(f"{case['mesh']}/{case['pinned']}/{canon(ops)}")
        compare(ops, refs[hist[-1]], res, dict(mesh=case["mesh"], pinned=case["pinned"], history=hist))
        if depth < case["depth"]:
            for ev in ALPHABET:
                rec(hist + [ev], depth + 1)

    rec([case["first"]], 1)
    res.nontrivial = True
    res.executions = res.transitions
    res.outcome = "hist"
    return res


# ---------------------------------------------------------------------------------------------
_TABLE = {"scale": [1.0], "dt": 1.0}


def _scripted_A(x, y, z, *, t, B0=0.25):
    n = int(round(t / _TABLE["dt"]))
    n = min(max(n, 0), len(_TABLE["scale"]) - 1)
    s = _TABLE["scale"][n] * B0
    return np.stack([-s * y / 2 + 0.05 * s, s * x / 2 - 0.02 * s, np.zeros_like(x)], axis=1)


def run_solver(case):
    import tdgl
    from tdgl.finite_volume.operators import build_laplacian

    from .. import drivers, zoo

    res = CaseResult()
    res.key = case_key(case)
    dev = drivers.tiny(2, terminals=False) if case["dev"] == "tiny" else zoo.device("G1", terminals=False)
    L = case["L"]
    dt = 2.0**-6
    rest = L - len(case["prefix"])
    for tail in itertools.product(range(len(INCS)), repeat=rest):
        script = list(case["prefix"]) + list(tail)
        scale = [1.0]
        for i in script:
            scale.append(scale[-1] * (1 + INCS[i]))
        _TABLE["scale"] = scale
        _TABLE["dt"] = dt
        opts = tdgl.SolverOptions(
            solve_time=1.0,
            dt_init=dt,
            dt_max=dt,
            adaptive=False,
            include_screening=case["screening"],
            screening_tolerance=1e-2,
            progress_interval=10**9,
        )
        A = tdgl.Parameter(_scripted_A, time_dependent=True)
        solver = tdgl.TDGLSolver(dev, opts, applied_vector_potential=A)
        captured = []
        orig = tdgl.TDGLSolver.solve_for_psi_squared

        inject = {"refuse": False}

        def wrapper(**kw):
            captured.append(kw["psi_laplacian"].toarray())
            if inject["refuse"]:
                return None  # the environment refuses this update: with a fixed step the library raises, after the operators were refreshed
            return orig(**kw)

        solver.solve_for_psi_squared = wrapper
        # drive update by hand, step by step, so that the expected potential of each call is known
        from tdgl.solver.runner import RunningState

        names = ["psi", "mu", "supercurrent", "normal_current", "induced_vector_potential", "applied_vector_potential"]
        ne = solver.num_edges
        vals = [solver.psi_init, solver.mu_init, np.zeros(ne), np.zeros(ne), np.zeros((ne, 2)), solver.current_A_applied]
        sizes = {"dt": 1, "mu": 2, "theta": 2}
        if case["screening"]:
            sizes["screening_iterations"] = 1
        rs = RunningState(sizes, 1)
        time = 0.0
        d = dt
        mesh = dev.mesh
        # stage 1: steps 0..L; stage 2: the run loop starts a new stage (thermalisation -> simulation, or a second solve() on the
        # same solver): step counter and clock restart at 0 on the same solver object, whose operators hold the last potential
        plan = [(1, n) for n in range(L + 1)] + [(2, n) for n in range(3)]
        for stage, n in plan:
            if stage == 2 and n == 0:
                time = 0.0
                if case["screening"]:
                    # the new stage is handed a state other than the one the operators were left with (a run continued from a
                    # stored solution): the first iteration must use the induced potential it is given
                    vals[4] = 0.5 * np.asarray(vals[4])
            # fail_last: the last step of stage 1 fails after its refresh (a refused update at a fixed time step raises); the
            # next stage starts on the same solver (a second solve() after a failed one)
            inject["refuse"] = bool(case.get("fail_last") and stage == 1 and n == L)
            captured.clear()
            A_in = vals[4]
            rs.clear()
            try:
                out = solver.update({"step": n, "time": time, "dt": d}, rs, d, **dict(zip(names, vals)))
            except RuntimeError as exc:
                if "converge" in str(exc):
                    if inject["refuse"]:
                        res.count("stage1_ended_by_injected_refusal")
                        continue  # the state handed to the next stage is that of the last completed step
                    # documented failure mode (jumping field / screening): the step is not run at all
                    res.count("scripts_ended_by_refusal")
                    break
                raise
            d, *vals = out
            A_now = solver.update_applied_vector_potential(time)
            res.transitions += 1
            res.states.add(f"{case['dev']}/scr={case['screening']}/stage={stage}/inc={script[n - 1] if n else 'init'}")
            if not case["screening"]:
                want, _ = build_laplacian(mesh, link_exponents=A_now, weights=solver.operators.laplacian_weights)
                want = want.toarray()
                for lap in captured:
                    err = float(np.abs(lap - want).max()) / max(1.0, float(np.abs(want).max()))
                    res.residual("solver_entry", err)
                    if err > 1e-13:
                        res.violate(
                            "stale-operator-in-use",
                            screening=False,
                            magnitude="tiny" if err < 1e-4 else "gross",
                            after_increment=INCS[script[n - 1]] if n else None,
                            **({"after_clock_reset": True} if stage == 2 else {}),
                            detail={"script": [INCS[i] for i in script], "step": n, "stage": stage, "err": err},
                        )
                        break
            else:
                # the first iteration must use A_applied(t_n) + the induced potential handed in
                want, _ = build_laplacian(mesh, link_exponents=A_now + A_in, weights=solver.operators.laplacian_weights)
                want = want.toarray()
                if captured:
                    err = float(np.abs(captured[0] - want).max()) / max(1.0, float(np.abs(want).max()))
                    res.residual("solver_entry_scr", err)
                    if err > 1e-13:
                        res.violate("stale-operator-in-use", screening=True, magnitude="tiny" if err < 1e-4 else "gross",
                                    after_increment=INCS[script[n - 1]] if n else None, **({"after_clock_reset": True} if stage == 2 else {}),
                                    detail={"script": [INCS[i] for i in script], "step": n, "stage": stage, "err": err})
                # and after the step the operators in the object match the last iterate used
                res.count("screening_iterations", len(captured))
            time += d
        res.executions += 1
    res.executions -= 1
    res.nontrivial = True
    res.outcome = f"solver-scr={case['screening']}"
    return res


def run_pair(case):
    """interleavings of refresh events on two MeshOperators objects that share one Mesh"""
    res = CaseResult()
    res.key = case_key(case)
    mesh, term = get_mesh(case["mesh"])
    pots = potentials(mesh, case["seed"])
    letters = ["uni", "lin", "rnd"]
    refs = {}
    for pk in case["pinned"]:
        for a in letters:
            r = fresh_ops(mesh, pk, term)
            r.set_link_exponents(pots[a])
            refs[(pk, a)] = r
    # all interleaved event sequences of length 4 over (object, potential)
    events = [(o, a) for o in (0, 1) for a in letters]
    for seq in itertools.product(events, repeat=3):
        if len({o for o, _ in seq}) < 2:
            continue
        objs = [fresh_ops(mesh, case["pinned"][0], term), fresh_ops(mesh, case["pinned"][1], term)]
        last = [None, None]
        for o, a in seq:
            objs[o].set_link_exponents(pots[a])
            last[o] = a
            res.transitions += 1
            for q in (0, 1):
                if last[q] is not None:
                    compare(objs[q], refs[(case["pinned"][q], last[q])], res,
                            dict(mesh=case["mesh"], pinned=f"{case['pinned'][q]}|other={case['pinned'][1 - q]}", history=[list(e) for e in seq]))
        res.states.add(f"{case['mesh']}/{case['pinned']}/{seq}")
    res.executions = res.transitions
    res.nontrivial = True
    res.outcome = "pair"
    return res


def run_case(case):
    return {"bfs": run_bfs, "hist": run_hist, "solver": run_solver, "pair": run_pair}[case["fam"]](case)
