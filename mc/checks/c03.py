"""C03 - finite-volume operators obey the discrete calculus identities.

Matrix identities (each covers all fields by linearity) evaluated on every (mesh, weight pattern,
vector potential) triple of a finite family, plus entrywise agreement with operators rebuilt by
explicit neighbour sums from the raw arrays.
"""
from __future__ import annotations

import itertools

import numpy as np

from ..core import CaseResult, case_key
from ..ref.physics import RawMesh

ID = "C03"
LEVEL = "exploration"
RULE = (
    "meshes (zoo x density x smoothing, hex lattices n x m in 2..4, sheared, seeded jittered Delaunay, annuli) x cell-area pattern x dual-length pattern "
    "{1, alternating 0.5/2, seeded log-uniform} x vector potential {none, 0, uniform, linear, wrapping, seeded per-edge}; identities: L = D G, a^T D = 0, a^T B = l^T, "
    "diag(a) L symmetric negative semi-definite with exactly one constant null vector per connected component, diag(a) L_A Hermitian, G exact on {1, x, y}. "
    "Non-trivial = mesh has interior sites and the potential is not none; distinct = (mesh, weights, A)."
)
ASSUMPTIONS = [
    "each entry of L_A is affine in one unit complex link variable, so Hermiticity for three potentials with pairwise distinct per-edge phases decides all potentials (the alphabet has five)",
    "reweighted meshes are built through the public Mesh / EdgeMesh constructors",
]
TOLERANCES = {"identity": 1e-12}
A_ALPH = ["none", "zero", "uni", "lin", "wrap", "rnd"]
W_ALPH = ["one", "alt", "rnd"]


def bound(tier):
    return {
        "quick": "16 meshes x 3 area patterns x 3 dual-length patterns x 6 potentials",
        "thorough": "50 meshes (zoo 7x2x2, hex 2..4 x 2..4, sheared, Delaunay 10/40/120 x 3 seeds, annuli) x 9 weight patterns x 6 potentials x 2 seeds",
    }[tier]


def floors(tier):
    return {"distinct_nontrivial": 30, "count:triples": 400}


def mesh_names(tier):
    # idx<dtype>:<n>x<m> = a structured triangulation whose `elements` are given in a narrow integer dtype (what a mesh generator or a
    # file may hand over) with enough sites that products of site indices do not fit that dtype
    q = ["tiny", "G1", "G2", "G3", "G5", "G7s", "hex22", "hex23", "hex33", "hex43", "hex34s", "rd10", "rd40", "ann39", "ann410", "G4", "idxuint8:5x4", "idxint16:14x15", "idxint32:4x3"]
    if tier == "quick":
        return q
    t = [f"{g}:{d}:{s}" for g in ("G1", "G2", "G3", "G4", "G5", "G6", "G7") for d in ("coarse", "fine") for s in (0, 3)]
    t += [f"hex{n}{m}" for n in range(2, 5) for m in range(2, 5)] + ["hex34s", "hex44s"]
    t += [f"rd{n}_{s}" for n in (10, 40, 120) for s in (1, 2, 3)] + ["ann39", "ann410", "ann412", "tiny"]
    t += ["idxuint8:5x4", "idxint8:4x3", "idxint16:14x15", "idxuint16:16x17", "idxint32:4x3", "idxuint32:6x5"]
    return t


def cases(tier, seed):
    out = []
    for m in ("G1", "G3", "rd40", "G5") if tier == "quick" else ("G1", "G2", "G3", "G4", "G5", "rd40", "rd120_2", "ann39", "ann412", "hex34s"):
        out.append(dict(mesh=m, seed=seed, areas="one", history="smoothed_derived"))
    for m in ("G1", "G5", "rd40") if tier == "quick" else ("G1", "G2", "G3", "G5", "rd40", "ann39", "hex34s"):
        for hist in ("reloaded", "reloaded_compressed"):
            out.append(dict(mesh=m, seed=seed, areas="one", history=hist))
    for m in mesh_names(tier):
        for sd in (seed,) if tier == "quick" else (seed, seed + 1):
            for ap in W_ALPH:
                out.append(dict(mesh=m, seed=sd, areas=ap))
    return out


def get_mesh(name):
    from tdgl.finite_volume import Mesh

    from .. import drivers, zoo

    if name == "tiny":
        return drivers.tiny(0, terminals=True).mesh
    if name.startswith("idx"):
        dt, shape = name[3:].split(":")
        n, m = (int(v) for v in shape.split("x"))
        p, t = zoo.hex_lattice(n, m, shear=0.2)
        if len(p) - 1 > np.iinfo(dt).max:
            raise RuntimeError("harness: site indices do not fit the requested dtype")
        return Mesh.from_triangulation(p, np.asarray(t).astype(dt))
    if ":" in name:
        g, d, s = name.split(":")
        return zoo.device(g, density=d, smooth=int(s)).mesh
    if name in ("G1", "G2", "G3", "G4", "G5", "G6", "G7"):
        return zoo.device(name).mesh
    if name == "G7s":
        return zoo.device("G7", smooth=3).mesh
    if name.startswith("hex"):
        sh = 0.2 if name.endswith("s") else 0.0
        n, m = int(name[3]), int(name[4])
        p, t = zoo.hex_lattice(n, m, shear=sh)
    elif name.startswith("rd"):
        parts = name[2:].split("_")
        p, t = zoo.random_delaunay(int(parts[0]), int(parts[1]) if len(parts) > 1 else 3)
    elif name.startswith("ann"):
        p, t = zoo.annulus(int(name[3]), int(name[4:]))
    return Mesh.from_triangulation(p, t)


def reweighted(mesh, pa, pq):
    """a new Mesh with areas * pa and dual edge lengths * pq (all positive)"""
    from tdgl.finite_volume import EdgeMesh, Mesh

    em = mesh.edge_mesh
    em2 = EdgeMesh(em.centers, em.edges, em.boundary_edge_indices, em.directions, em.edge_lengths, em.dual_edge_lengths * pq)
    return Mesh(mesh.sites, mesh.elements, mesh.boundary_indices, areas=mesh.areas * pa, dual_sites=mesh.dual_sites, edge_mesh=em2,
                voronoi_polygons=mesh.voronoi_polygons)


def components(n, edges):
    parent = list(range(n))

    def find(i):
        while parent[i] != i:
            parent[i] = parent[parent[i]]
            i = parent[i]
        return i

    for a, b in edges:
        ra, rb = find(a), find(b)
        if ra != rb:
            parent[ra] = rb
    return len({find(i) for i in range(n)})


def run_case(case):
    from tdgl.finite_volume.operators import build_divergence, build_gradient, build_laplacian, build_neumann_boundary_laplacian

    res = CaseResult()
    res.key = case_key(case)
    base = get_mesh(case["mesh"])
    if case.get("history") == "smoothed_derived":
        # the mesh has a history: a smoothed mesh was derived from it (Mesh.smooth returns a new mesh); the identities are then
        # checked on the original object, which must be untouched
        from tdgl.finite_volume import Mesh

        base = Mesh.from_triangulation(np.array(base.sites), np.array(base.elements))  # private object (fixtures are shared)
        before = {nm: np.array(getattr(base, nm)) for nm in ("sites", "areas", "elements", "boundary_indices", "dual_sites")}
        before.update({"edge." + nm: np.array(getattr(base.edge_mesh, nm)) for nm in ("centers", "edges", "directions", "edge_lengths", "dual_edge_lengths")})
        try:
            derived = base.smooth(2)
            res.count("derived_mesh_moved_sites", int(not np.array_equal(derived.sites, before["sites"])))
        except ValueError as exc:
            if "Malformed Voronoi cell" not in str(exc):
                raise
            res.count("smoothing_refused")  # the library declines to build a dual mesh for the smoothed sites; the original is still checked
        for nm, old in before.items():
            now = getattr(base.edge_mesh, nm[5:]) if nm.startswith("edge.") else getattr(base, nm)
            if not np.array_equal(np.asarray(now), old):
                res.violate("mesh-changed-by-deriving-a-smoothed-mesh", attribute=nm, detail={"mesh": case["mesh"]})
    if case.get("history") in ("reloaded", "reloaded_compressed"):
        # the mesh is one that was written to disk and read back (stored arrays / recomputed from the stored triangulation)
        import h5py
        from tdgl.finite_volume import Mesh

        with h5py.File("mesh.h5", "w") as f:
            base.to_hdf5(f.create_group("mesh"), compress=(case["history"] == "reloaded_compressed"))
        with h5py.File("mesh.h5", "r") as f:
            base = Mesh.from_hdf5(f["mesh"])
    n, m = len(base.sites), len(base.edge_mesh.edges)
    rng = np.random.default_rng([case["seed"], 303])
    pats_a = {"one": np.ones(n), "alt": np.where(np.arange(n) % 2, 0.5, 2.0), "rnd": 10 ** rng.uniform(-1, 1, n)}
    pats_q = {"one": np.ones(m), "alt": np.where(np.arange(m) % 2, 2.0, 0.5), "rnd": 10 ** rng.uniform(-1, 1, m)}
    c = base.edge_mesh.centers
    A_set = {
        "none": None,
        "zero": np.zeros((m, 2)),
        "uni": np.tile([0.3, -0.2], (m, 1)),
        "lin": 0.35 * np.column_stack([-c[:, 1], c[:, 0]]),
        "wrap": 23.0 * np.column_stack([-c[:, 1], c[:, 0]]) + 2.0,
        "rnd": rng.normal(size=(m, 2)),
    }
    ncomp = components(n, base.edge_mesh.edges)
    tol = TOLERANCES["identity"]
    for an_, qn in itertools.product([case["areas"]], W_ALPH):
        mesh = base if (an_, qn) == ("one", "one") else reweighted(base, pats_a[an_], pats_q[qn])
        rm = RawMesh.from_mesh(mesh)
        a = mesh.areas
        em = mesh.edge_mesh
        D = build_divergence(mesh).toarray()
        G = build_gradient(mesh).toarray()
        L = build_laplacian(mesh)[0].toarray()
        B = build_neumann_boundary_laplacian(mesh).toarray()
        ctx = dict(areas=an_, duals=qn)
        det = {"mesh": case["mesh"]}

        def rel(x, ref):
            return float(np.abs(x).max()) / max(float(np.abs(ref).max()), 1e-300)

        # entrywise against explicit neighbour sums
        Lref = rm.laplacian_dense()
        e0 = rel(L - Lref, Lref)
        res.residual("laplacian_vs_explicit", e0)
        if e0 > tol:
            res.violate("laplacian-entries", **ctx, detail=det)
        f = rng.normal(size=m)
        e0 = rel(D @ f - rm.outflow(f) / a, rm.outflow(f) / a)
        if e0 > tol:
            res.violate("divergence-entries", **ctx, detail=det)
        g = rng.normal(size=n)
        gref = (g[em.edges[:, 1]] - g[em.edges[:, 0]]) / rm.e
        if rel(G @ g - gref, gref) > tol:
            res.violate("gradient-entries", **ctx, detail=det)
        # identities
        e1 = rel(L - D @ G, L)
        res.residual("L_eq_DG", e1)
        if e1 > tol:
            res.violate("laplacian-is-not-div-grad", **ctx, detail=det)
        e2 = float(np.abs(a @ D).max()) / max(float(np.abs(a[:, None] * D).max()), 1e-300)
        res.residual("aT_D", e2)
        if e2 > tol:
            res.violate("divergence-not-conservative", **ctx, detail=det)
        ell = rm.e[rm.bidx]
        e3 = rel(a @ B - ell, ell)
        res.residual("aT_B", e3)
        if e3 > tol:
            res.violate("boundary-flux-does-not-integrate-to-length", **ctx, detail=det)
        S = a[:, None] * L
        e4 = rel(S - S.T, S)
        res.residual("symmetry", e4)
        if e4 > tol:
            res.violate("laplacian-not-symmetric", **ctx, detail=det)
        else:
            ev, vec = np.linalg.eigh(0.5 * (S + S.T))
            lmax = max(abs(ev[0]), abs(ev[-1]))
            if ev[-1] > tol * lmax * 10:
                res.violate("laplacian-not-negative-semidefinite", **ctx, detail=dict(det, top=float(ev[-1]), scale=float(lmax)))
            nnull = int(np.sum(np.abs(ev) <= 1e-10 * lmax))
            if nnull != ncomp:
                res.violate("null-space-dimension", **ctx, detail=dict(det, nnull=nnull, components=ncomp))
            elif ncomp == 1:
                v = vec[:, np.argmin(np.abs(ev))]
                if np.abs(v - v.mean()).max() > 1e-8 * np.abs(v).max():
                    res.violate("null-vector-not-constant", **ctx, detail=det)
            if float(np.abs(L @ np.ones(n)).max()) > tol * float(np.abs(L).max()) * 10:
                res.violate("laplacian-does-not-annihilate-constants", **ctx, detail=det)
        # gradient exact on linear functions
        for fn, want in (("one", np.zeros(m)), ("x", em.normalized_directions[:, 0]), ("y", em.normalized_directions[:, 1])):
            fv = {"one": np.ones(n), "x": mesh.sites[:, 0], "y": mesh.sites[:, 1]}[fn]
            e5 = float(np.abs(G @ fv - want).max())
            res.residual("gradient_linear", e5)
            if e5 > 1e-11:
                res.violate("gradient-not-exact-on-linear", function=fn, **ctx, detail=det)
        # covariant Laplacian Hermitian in the area-weighted inner product
        for An, A in A_set.items():
            LA = build_laplacian(mesh, link_exponents=A)[0].toarray()
            SA = a[:, None] * LA
            e6 = rel(SA - SA.conj().T, SA)
            res.residual("hermiticity", e6)
            res.count("triples")
            if e6 > tol:
                res.violate("covariant-laplacian-not-hermitian", A=An, **ctx, detail=det)
            # explicit reference for the covariant operator
            psi = rng.normal(size=n) + 1j * rng.normal(size=n)
            ref = rm.cov_laplacian(psi, A)
            e7 = rel(LA @ psi - ref, ref)
            res.residual("covariant_vs_explicit", e7)
            if e7 > 1e-11:
                res.violate("covariant-laplacian-entries", A=An, **ctx, detail=det)
            GA = build_gradient(mesh, link_exponents=A).toarray()
            U = rm.link(A)
            gref = (U * psi[em.edges[:, 1]] - psi[em.edges[:, 0]]) / rm.e
            if rel(GA @ psi - gref, gref) > 1e-11:
                res.violate("covariant-gradient-entries", A=An, **ctx, detail=det)
            if A is None or An == "zero":
                if rel(LA - L, L) > tol:
                    res.violate("zero-potential-differs-from-scalar-laplacian", A=An, **ctx, detail=det)
    # the same identities for the operators held by a MeshOperators object after a history of (partial) refreshes
    if case["areas"] == "one":
        from tdgl.finite_volume.operators import MeshOperators
        from tdgl.solver.options import SparseSolver

        mesh = base
        a = mesh.areas
        # --- the potential-independent operators the solver actually uses, and its factorised Poisson solve
        fixed = np.asarray(mesh.boundary_indices[:3], dtype=np.int64)
        for fx in (None, fixed):
            ops0 = MeshOperators(mesh, SparseSolver.SUPERLU, fixed_sites=fx)
            try:
                ops0.build_operators()
            except RuntimeError as exc:
                if "singular" not in str(exc):
                    raise
                res.count("singular_factor")  # SuperLU flags the (singular by construction) pure-Neumann operator on this mesh
                continue
            L0 = build_laplacian(mesh)[0].toarray()
            missing = [nm for nm in ("mu_laplacian", "divergence", "mu_gradient", "mu_boundary_laplacian", "mu_laplacian_lu") if getattr(ops0, nm, None) is None]
            if missing:
                res.violate("solver-operator-not-built", operator=missing[0], detail=det)
                continue
            for nm, got, want in (("mu_laplacian", ops0.mu_laplacian.toarray(), L0), ("divergence", ops0.divergence.toarray(), build_divergence(mesh).toarray()),
                                  ("mu_gradient", ops0.mu_gradient.toarray(), build_gradient(mesh).toarray()),
                                  ("mu_boundary_laplacian", ops0.mu_boundary_laplacian.toarray(), build_neumann_boundary_laplacian(mesh).toarray())):
                if rel(got - want, want) > tol:
                    res.violate("solver-operator-differs-from-builder", operator=nm, detail=det)
            # Poisson solve: for a compatible right-hand side (area-weighted mean zero) the factorised solve satisfies L mu = rhs
            try:
                rhs = rng.normal(size=n)
                rhs -= (a @ rhs) / a.sum()
                mu = ops0.mu_laplacian_lu(rhs)
                e9 = rel(L0 @ mu - rhs, rhs)
                res.residual("poisson_solve", e9)
                if e9 > 1e-8:
                    res.violate("factorised-poisson-solve-does-not-solve", detail=dict(det, rel=e9))
            except RuntimeError as exc:
                if "singular" not in str(exc):
                    raise
                res.count("singular_factor")
        # --- optional arguments of the builders: custom weights, pinned rows with a given eigenvalue, zeroed boundary rows
        wcustom = mesh.edge_mesh.dual_edge_lengths / mesh.edge_mesh.edge_lengths * 1.7
        Lw = build_laplacian(mesh, weights=wcustom)[0].toarray()
        if rel(Lw - 1.7 * build_laplacian(mesh)[0].toarray(), Lw) > tol:
            res.violate("custom-weights-ignored-or-misapplied", operator="laplacian", detail=det)
        Gw = build_gradient(mesh, weights=2.0 / mesh.edge_mesh.edge_lengths).toarray()
        if rel(Gw - 2.0 * build_gradient(mesh).toarray(), Gw) > tol:
            res.violate("custom-weights-ignored-or-misapplied", operator="gradient", detail=det)
        for ev in (1.0, -3.5):
            Lf, free = build_laplacian(mesh, link_exponents=A_set["lin"], fixed_sites=fixed, fixed_sites_eigenvalues=ev)
            Lf = Lf.toarray()
            Lfree = build_laplacian(mesh, link_exponents=A_set["lin"])[0].toarray()
            want = Lfree.copy()
            want[fixed, :] = 0
            want[fixed, fixed] = ev
            if rel(Lf - want, want) > tol:
                res.violate("pinned-rows-are-not-identity-rows", eigenvalue=ev, detail=det)
        Bz = build_neumann_boundary_laplacian(mesh, fixed_sites=fixed).toarray()
        Bw = build_neumann_boundary_laplacian(mesh).toarray()
        Bw[fixed, :] = 0
        if rel(Bz - Bw, Bw) > tol:
            res.violate("boundary-operator-fixed-rows", detail=det)
        half = A_set["uni"].copy()
        half[m // 2 :] = A_set["lin"][m // 2 :]
        one = A_set["rnd"].copy()
        one[m // 3] = [0.4, 0.2]
        seqs = [["rnd", "one"], ["uni", "half", "lin"], ["lin", "half", "zero"], ["rnd", "zero"], ["wrap", "one", "half", "zero"]]
        pots = dict(A_set, half=half, one=one)
        # configurations of the holder: no pinned sites; pinned sites given but psi not pinned (terminal_psi=None);
        # pinned sites with psi pinned (identity rows with eigenvalue 1 there, the free operator elsewhere)
        for cfg, kw in (("plain", {}), ("fixed-sites-psi-free", dict(fixed_sites=fixed, fix_psi=False)), ("fixed-sites-psi-pinned", dict(fixed_sites=fixed, fix_psi=True))):
            pinned = cfg == "fixed-sites-psi-pinned"
            for seq in seqs:
                ops = MeshOperators(mesh, SparseSolver.SUPERLU, **kw)
                if cfg != "plain":
                    try:
                        ops.build_operators()
                    except RuntimeError as exc:
                        if "singular" not in str(exc):
                            raise
                        res.count("singular_factor")  # SuperLU flags the (singular by construction) pure-Neumann operator on some meshes
                for nm in seq:
                    ops.set_link_exponents(pots[nm])
                    LA = ops.psi_laplacian.toarray()
                    want = build_laplacian(mesh, link_exponents=pots[nm])[0].toarray()
                    res.count("triples")
                    if pinned:
                        want[fixed, :] = 0
                        want[fixed, fixed] = 1.0
                    else:
                        SA = a[:, None] * LA
                        e8 = rel(SA - SA.conj().T, SA)
                        res.residual("hermiticity_after_refresh", e8)
                        if e8 > tol:
                            res.violate("covariant-laplacian-not-hermitian", A=nm, areas="one", duals="refreshed", holder=cfg, detail=dict(det, history=seq))
                            break
                    if rel(LA - want, want) > tol:
                        res.violate("covariant-laplacian-entries", A=nm, areas="one", duals="refreshed", holder=cfg, detail=dict(det, history=seq))
                        break
                    GA = ops.psi_gradient.toarray()
                    wantG = build_gradient(mesh, link_exponents=pots[nm]).toarray()
                    if rel(GA - wantG, wantG) > tol:
                        res.violate("covariant-gradient-entries", A=nm, areas="one", duals="refreshed", holder=cfg, detail=dict(det, history=seq))
                        break
                if seq[-1] == "zero" and not pinned:
                    L0 = build_laplacian(mesh)[0].toarray()
                    if rel(ops.psi_laplacian.toarray() - L0, L0) > tol or float(np.abs(ops.psi_laplacian.toarray() @ np.ones(n)).max()) > 1e-10 * float(np.abs(L0).max()):
                        res.violate("refreshed-zero-potential-differs-from-scalar-laplacian", areas="one", duals="refreshed", holder=cfg, detail=dict(det, history=seq))
    if case.get("history") == "smoothed_derived" or case["areas"] == "rnd":
        # a sequence of short-lived meshes with one topology and changing geometry (a parameter scan): each is built, used
        # and dropped before the next one exists, so objects are re-created at recycled addresses
        import gc

        from tdgl.finite_volume import Mesh

        sites0, elems = np.array(base.sites), np.array(base.elements)
        hmin = float(base.edge_mesh.edge_lengths.min())
        interior = np.setdiff1d(np.arange(n), np.asarray(base.boundary_indices))
        bad = None
        for it in range(24):
            jit = np.zeros_like(sites0)
            jit[interior] = 0.08 * hmin * np.random.default_rng([case["seed"], 77, it]).uniform(-1, 1, (len(interior), 2))
            try:
                msh = Mesh.from_triangulation(sites0 + jit, elems)
            except ValueError:
                continue
            Dj = build_divergence(msh).toarray()
            Gj = build_gradient(msh).toarray()
            Lj = build_laplacian(msh)[0].toarray()
            rmj = RawMesh.from_mesh(msh)
            fj = np.random.default_rng([case["seed"], 78, it]).normal(size=m)
            wantj = rmj.outflow(fj) / msh.areas
            res.count("short_lived_meshes")
            Lrefj = rmj.laplacian_dense()
            lin = msh.sites @ np.array([0.7, -0.4]) + 0.3
            wantg = (lin[msh.edge_mesh.edges[:, 1]] - lin[msh.edge_mesh.edges[:, 0]]) / msh.edge_mesh.edge_lengths
            if (float(np.abs(Dj @ fj - wantj).max()) > tol * max(float(np.abs(wantj).max()), 1e-300) or float(np.abs(Lj - Dj @ Gj).max()) > tol * float(np.abs(Lj).max())
                    or float(np.abs(Lj - Lrefj).max()) > tol * float(np.abs(Lrefj).max()) or float(np.abs(Gj @ lin - wantg).max()) > 1e-11 * max(float(np.abs(wantg).max()), 1e-300)):
                bad = it
                break
            del msh, Dj, Gj, Lj, rmj
            gc.collect()
        if bad is not None:
            res.violate("operators-of-a-short-lived-mesh-belong-to-another-mesh", detail=dict(det, iteration=bad))
    res.nontrivial = len(base.boundary_indices) < n
    res.outcome = "ok"
    return res
