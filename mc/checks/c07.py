"""C07 - mesh geometry is the Delaunay/Voronoi dual of the device domain.

Finite product of (film, holes, terminals, mesh settings, coherence length); on every mesh every
triangle, edge and site is checked against shapely (tiling, outline, Euler characteristic) and, under
guards computed by the oracle alone (locally Delaunay, circumcentres inside the domain), against an
independent clipped-Voronoi construction (RM-voronoi).
"""
from __future__ import annotations

import itertools

import numpy as np

from ..core import CaseResult, case_key

ID = "C07"
LEVEL = "exploration"
RULE = (
    "film {3 boxes, ellipse, circle, tee, notched, resampled 101} x holes {none, circle, two, box, L-shaped (centroid outside the hole), outlines re-used from terminals / flagged mesh=False} x terminals {none, two} x max_edge_length x min_points x smoothing x xi; "
    "every triangle (orientation, containment), boundary edge (on outline), site (clipped Voronoi area under guards) and edge (clipped Voronoi face under guards) of every mesh. "
    "Non-trivial = mesh has interior sites passing the guards; distinct = case parameters."
)
ASSUMPTIONS = [
    "guards (computed from the raw triangulation only): every triangle incident to the site / edge has an empty circumcircle w.r.t. all sites (1e-9 margin) and its circumcentre lies inside the domain",
    "RM-voronoi: cell = domain polygon intersected with the half-planes against every site within 4 max edge lengths (shapely); face = bisector segment clipped by the other half-planes and the domain",
    "smoothed meshes keep their boundary sites, so tiling/outline/Euler clauses still apply; Voronoi clauses apply only where the guards hold",
]
TOLERANCES = {"area": 1e-9, "voronoi": 1e-9}


def bound(tier):
    return {
        "quick": "8 films x 5 hole sets (where they fit) x terminals {none,two} at (max_edge 1.0, smooth 0), + settings sweep {0.6, min_points 300, smooth 2, xi 0.5/2} on 4 films",
        "thorough": "8 films x 5 hole sets x [max_edge {1.0,0.6,0.4} x smooth {0,2,20} x xi {0.5,1,2} + min_points 300 (2 settings) + no terminals] = 960 meshes",
    }[tier]


def floors(tier):
    return {"distinct_nontrivial": 30, "count:sites_under_guard": 2000, "count:edges_under_guard": 4000, "count:triangles": 5000}


FILMS = ["box64", "box33", "box81", "ellipse", "circle", "tee", "notched", "resampled"]
HOLES = ["none", "circle", "two", "box", "ell", "reused"]


HISTORIES = ("remesh_finer", "remesh_coarser", "translated_inplace", "copy_translated", "translation_context", "terminal_resized", "terminals_replaced", "smoothed_derived", "reloaded", "reloaded_compressed")


def cases(tier, seed):
    out = []
    if tier == "quick":
        for f, h, t in itertools.product(FILMS, HOLES, (0, 2)):
            out.append(dict(film=f, holes=h, terminals=t, mel=1.0, min_points=None, smooth=0, xi=1.0))
        for f in ("box64", "ellipse", "tee", "notched"):
            for mel, mp, sm, xi in ((0.6, None, 0, 1.0), (1.0, 300, 0, 1.0), (1.0, None, 2, 1.0), (1.0, None, 0, 0.5), (1.0, None, 0, 2.0), (0.6, None, 2, 2.0)):
                out.append(dict(film=f, holes="circle", terminals=2, mel=mel, min_points=mp, smooth=sm, xi=xi))
        # histories: the checked mesh is not the first one made for the device object
        for f in ("box33", "tee", "notched"):
            for hist in HISTORIES:
                out.append(dict(film=f, holes="circle", terminals=2, mel=0.8, min_points=None, smooth=0, xi=1.0, history=hist))
        # displacements are lengths: the moved histories also with coherence lengths other than one length unit
        for xi, hist in itertools.product((0.5, 2.0), ("translated_inplace", "copy_translated", "translation_context", "remesh_finer")):
            out.append(dict(film="box33", holes="circle", terminals=2, mel=0.8, min_points=None, smooth=0, xi=xi, history=hist))
    else:
        # terminals do not influence the mesh: the settings sweep is run with terminals, the no-terminal devices once
        for f, h in itertools.product(FILMS, HOLES):
            out.append(dict(film=f, holes=h, terminals=0, mel=1.0, min_points=None, smooth=0, xi=1.0))
            out.append(dict(film=f, holes=h, terminals=2, mel=1.0, min_points=300, smooth=0, xi=1.0))
            out.append(dict(film=f, holes=h, terminals=2, mel=0.6, min_points=300, smooth=2, xi=2.0))
            for mel, sm, xi in itertools.product((1.0, 0.6, 0.4), (0, 2, 20), (0.5, 1.0, 2.0)):
                out.append(dict(film=f, holes=h, terminals=2, mel=mel, min_points=None, smooth=sm, xi=xi))
        for f, h, xi, hist in itertools.product(FILMS, ("circle", "two"), (1.0, 0.5), HISTORIES):
            out.append(dict(film=f, holes=h, terminals=2, mel=0.8, min_points=None, smooth=0, xi=xi, history=hist))
    return out


def build_device(case):
    import tdgl
    from tdgl.geometry import box, circle, ellipse

    P = tdgl.Polygon
    f = case["film"]
    if f == "box64":
        film = P("film", points=box(6.0, 4.0, points=40))
    elif f == "box33":
        film = P("film", points=box(3.3, 3.0, points=26, center=(0.1, 0.05), angle=7))
    elif f == "box81":
        film = P("film", points=box(8.0, 1.6, points=48))
    elif f == "ellipse":
        film = P("film", points=ellipse(3.5, 2.0, points=52, angle=30))
    elif f == "circle":
        film = P("film", points=circle(2.6, points=46, center=(0.05, -0.02)))
    elif f == "tee":
        film = P("film", points=box(7.0, 2.0, points=44)).union(P("s", points=box(1.6, 3.0, points=24, center=(0.4, -2.0)))).resample(61)
        film.name = "film"
    elif f == "notched":
        film = P("film", points=box(7.0, 3.0, points=48)).difference(P("n1", points=box(0.8, 1.0, points=12, center=(-0.9, 1.2))), P("n2", points=box(0.7, 0.9, points=12, center=(1.1, -1.25)))).resample(61)
        film.name = "film"
    else:
        film = P("film", points=ellipse(3.2, 1.5, points=40, angle=-12)).resample(101)
    h = case["holes"]
    holes = []
    small = f in ("box81",)
    if h == "circle":
        holes = [P("h1", points=circle(0.45 if small else 0.7, points=18, center=(0.25, 0.1)))]
    elif h == "two":
        holes = [P("h1", points=circle(0.35, points=14, center=(-0.9, 0.15))), P("h2", points=ellipse(0.5, 0.3, points=16, center=(1.0, -0.2), angle=25))]
    elif h == "box":
        holes = [P("h1", points=box(0.9, 0.5, points=14, center=(0.2, -0.1), angle=15))]
    elif h == "ell":
        # a non-convex hole whose centroid lies outside it (an L made of two thin arms)
        sc = 0.6 if small else 1.0
        holes = [P("h1", points=sc * np.array([(-0.3, -0.6), (0.9, -0.6), (0.9, -0.3), (0.0, -0.3), (0.0, 0.6), (-0.3, 0.6)]) + np.array([0.2, 0.05])).resample(31)]
        holes[0].name = "h1"
    elif h == "reused":
        # the hole outlines are polygons that served as terminals of another device before (Device() marks its terminals mesh=False in
        # place) and one that was created with mesh=False: a hole listed in device.holes is a hole of the domain whatever that flag says
        t1 = P("t1", points=circle(0.4, points=16, center=(0.0, 0.0)))
        tdgl.Device("other", layer=tdgl.Layer(coherence_length=1.0, london_lambda=2.0, thickness=0.1), film=P("f", points=box(1.3, 0.9, points=12)), terminals=[t1, P("t2", points=box(0.2, 0.5, center=(0.65, 0.02)))])
        h1 = t1.translate(dx=-0.8, dy=0.2)
        h1.name = "h1"
        holes = [h1, P("h2", points=box(0.6, 0.4, points=10, center=(0.9, -0.15), angle=20), mesh=False)]
    xs = film.points[:, 0]
    terms = []
    if case["terminals"]:
        xl, xr = xs.min(), xs.max()
        terms = [P("left", points=box(0.5, 1.2, center=(xl, 0.07))), P("right", points=box(0.5, 0.9, center=(xr, -0.04)))]
    xi = case["xi"]
    dev = tdgl.Device("d", layer=tdgl.Layer(coherence_length=xi, london_lambda=2.0, thickness=0.1), film=film, holes=holes, terminals=terms)
    return dev


def circumcentres(p, tri):
    A = p[tri[:, 0]]
    B = p[tri[:, 1]] - A
    C = p[tri[:, 2]] - A
    D = 2 * (B[:, 0] * C[:, 1] - B[:, 1] * C[:, 0])
    b2 = (B**2).sum(axis=1)
    c2 = (C**2).sum(axis=1)
    ux = (C[:, 1] * b2 - B[:, 1] * c2) / D
    uy = (B[:, 0] * c2 - C[:, 0] * b2) / D
    cc = np.column_stack([ux, uy]) + A
    r = np.sqrt(ux**2 + uy**2)
    return cc, r


def run_case(case):
    import shapely
    from shapely.geometry import LineString, Point, Polygon as SPoly

    res = CaseResult()
    res.key = case_key(case)
    dev = build_device(case)
    xi = case["xi"]
    hist = case.get("history")
    try:
        if hist in ("remesh_finer", "remesh_coarser"):
            dev.make_mesh(max_edge_length=(1.4 if hist == "remesh_finer" else 0.45) * xi, smooth=1)
            _ = dev.mesh.areas.sum(), dev.terminal_info(), dev.points
        dev.make_mesh(max_edge_length=case["mel"] * xi, min_points=case["min_points"], smooth=case["smooth"])
        if hist == "translated_inplace":
            _ = dev.terminal_info(), dev.points, dev.triangulation
            dev.translate(dx=1.7, dy=-0.9, inplace=True)
        if hist == "copy_translated":
            # another holder of the same device (Device.copy(), as kept by every Solution) is moved; the checked one is the original.
            # (copy.copy(device) is a plain shallow copy that shares the polygons themselves: moving it moves the original's outlines
            # by Python's own semantics, so it is not part of this history.)
            other = dev.copy()
            other.translate(dx=1.7, dy=-0.9, inplace=True)
            _ = other.points, other.mesh.areas.sum()
        if hist in ("terminal_resized", "terminals_replaced"):
            # the terminals were queried for this mesh, then changed (in place / re-assigned) without re-meshing
            before = {t.name: t.length for t in dev.terminal_info()}
            res.count("terminal_queries_before_change", len(before))
            if hist == "terminal_resized":
                dev.terminals[0].scale(yfact=2.2, inplace=True)
                dev.terminals[1].translate(dy=0.45, inplace=True)
            else:
                import tdgl as _tdgl
                from tdgl.geometry import box as _box

                xs_ = dev.film.points[:, 0]
                dev.terminals = (_tdgl.Polygon("left", points=_box(0.5, 0.6, center=(xs_.min(), -0.3))), _tdgl.Polygon("right", points=_box(0.5, 1.8, center=(xs_.max(), 0.1))))
        if hist == "smoothed_derived":
            # a smoothed mesh is derived from the device's mesh (Mesh.smooth returns a new mesh) and discarded
            try:
                _ = dev.mesh.smooth(3).areas.sum()
            except ValueError as exc:
                if "Malformed Voronoi cell" not in str(exc):
                    raise
                res.count("smoothing_refused")
        if hist in ("reloaded", "reloaded_compressed"):
            # the checked device is one that was written to disk and read back (stored mesh arrays / recomputed from the triangulation)
            import tdgl as _tdgl

            if hist == "reloaded":
                dev.to_hdf5("device.h5")
                dev = _tdgl.Device.from_hdf5("device.h5")
            else:
                # the mesh alone, stored as its triangulation only and recomputed on load
                import h5py as _h5py

                from tdgl.finite_volume import Mesh as _Mesh

                with _h5py.File("mesh.h5", "w") as f:
                    dev.mesh.to_hdf5(f.create_group("mesh"), compress=True)
                with _h5py.File("mesh.h5", "r") as f:
                    dev.mesh = _Mesh.from_hdf5(f["mesh"])
        if hist == "translation_context":
            # moved and moved back by the documented context manager; a copy was taken while it was moved
            with dev.translation(1.7, -0.9):
                inner = dev.copy()
                _ = inner.points
            inner.translate(dx=0.4, dy=0.3, inplace=True)
    except ValueError as exc:
        if "Malformed Voronoi cell" in str(exc):
            # the library refuses to build a dual mesh for this triangulation (documented advice: resample the outline)
            res.count("mesh_refused")
            res.outcome = "refused"
            return res
        raise
    mesh = dev.mesh
    p = np.asarray(mesh.sites, float)
    tri = np.asarray(mesh.elements, int)
    em = mesh.edge_mesh
    n, T = len(p), len(tri)
    dom = SPoly(np.asarray(dev.film.points) / xi, holes=[np.asarray(h.points) / xi for h in dev.holes])
    ctx = dict(film=case["film"], holes=case["holes"], smooth=case["smooth"])
    det = {"case": case}
    res.count("triangles", T)
    # ---- 1. orientation, tiling ----------------------------------------------------------
    q = p[tri]
    sa = 0.5 * ((q[:, 1, 0] - q[:, 0, 0]) * (q[:, 2, 1] - q[:, 0, 1]) - (q[:, 1, 1] - q[:, 0, 1]) * (q[:, 2, 0] - q[:, 0, 0]))
    if np.any(sa <= 1e-14):
        res.violate("triangle-not-positively-oriented", n=int((sa <= 1e-14).sum()), **ctx, detail=det)
    e_area = abs(np.abs(sa).sum() - dom.area) / dom.area
    res.residual("tiling_area", e_area)
    if e_area > TOLERANCES["area"]:
        res.violate("triangles-do-not-tile-the-domain", **ctx, detail=dict(det, sum=float(np.abs(sa).sum()), domain=dom.area))
    cent = q.mean(axis=1)
    inside = shapely.contains(dom, shapely.points(cent))
    if not inside.all():
        res.violate("triangle-outside-domain", n=int((~inside).sum()), **ctx, detail=det)
    # ---- 2. edges: incidence, boundary ----------------------------------------------------
    raw = np.sort(np.concatenate([tri[:, [0, 1]], tri[:, [1, 2]], tri[:, [2, 0]]]), axis=1)
    uniq, counts = np.unique(raw, axis=0, return_counts=True)
    E = len(uniq)
    if not np.array_equal(uniq, np.asarray(em.edges)):
        res.violate("edge-list-is-not-the-set-of-triangle-sides", **ctx, detail=det)
        return res
    if np.any(counts > 2):
        res.violate("edge-shared-by-more-than-two-triangles", **ctx, detail=det)
    bmask = counts == 1
    if not np.array_equal(np.where(bmask)[0], np.asarray(em.boundary_edge_indices)):
        res.violate("boundary-edge-indices", **ctx, detail=det)
    if not np.array_equal(np.unique(uniq[bmask].ravel()), np.asarray(mesh.boundary_indices)):
        res.violate("boundary-site-indices", **ctx, detail=det)
    nh = len(dev.holes)
    if n - E + T != 1 - nh:
        res.violate("euler-characteristic", **ctx, detail=dict(det, V=n, E=E, T=T, holes=nh))
    outline = dom.boundary
    bmid = p[uniq[bmask]].mean(axis=1)
    bend = p[uniq[bmask]]
    dist = np.maximum(shapely.distance(shapely.points(bmid), outline), np.maximum(shapely.distance(shapely.points(bend[:, 0]), outline), shapely.distance(shapely.points(bend[:, 1]), outline)))
    if dist.max() > 1e-9:
        res.violate("boundary-edge-not-on-outline", **ctx, detail=dict(det, max_dist=float(dist.max())))
    blen = np.linalg.norm(bend[:, 1] - bend[:, 0], axis=1).sum()
    if abs(blen - outline.length) > 1e-9 * outline.length:
        res.violate("boundary-length-is-not-the-perimeter", **ctx, detail=dict(det, got=float(blen), want=outline.length))
    # ---- 3. edge vectors, lengths, centres ---------------------------------------------------
    vec = p[uniq[:, 1]] - p[uniq[:, 0]]
    for nm, got, want in (("directions", em.directions, vec), ("edge_lengths", em.edge_lengths, np.linalg.norm(vec, axis=1)), ("centers", em.centers, p[uniq].mean(axis=1))):
        if np.abs(np.asarray(got) - want).max() > 1e-12 * max(1.0, np.abs(want).max()):
            res.violate("edge-geometry", quantity=nm, **ctx, detail=det)
    if np.any(np.asarray(mesh.areas) <= 0) or np.any(np.asarray(em.dual_edge_lengths) < 0):
        res.violate("non-positive-cell-area-or-negative-dual-length", **ctx, detail=det)
    # ---- 4. Voronoi clauses under guards ------------------------------------------------------
    cc, rad = circumcentres(p, tri)
    # Delaunay guard: no site strictly inside the circumcircle
    d2 = ((cc[:, None, :] - p[None, :, :]) ** 2).sum(axis=2)
    empty = (d2 >= (rad[:, None] ** 2) * (1 - 1e-9)).all(axis=1)
    cc_in = shapely.contains(dom, shapely.points(cc)) & (shapely.distance(shapely.points(cc), outline) > 1e-9)
    good_tri = empty & cc_in
    tri_of_site = [[] for _ in range(n)]
    for t, tr in enumerate(tri):
        for v in tr:
            tri_of_site[v].append(t)
    site_ok = np.array([all(good_tri[t] for t in tri_of_site[i]) for i in range(n)])
    hmax = float(np.linalg.norm(vec, axis=1).max())
    big = 50.0 * max(dom.bounds[2] - dom.bounds[0], dom.bounds[3] - dom.bounds[1])
    nchecked = 0
    worst = 0.0
    for i in np.where(site_ok)[0]:
        near = np.where((np.linalg.norm(p - p[i], axis=1) < 4.0 * hmax))[0]
        # Only sites within R = 4 hmax are used as competitors, which is exact inside the disc of radius R/2 around the site
        # (a closer competitor of a point x with |x - p| <= R/2 lies within R of p). Every point of the domain is within hmax
        # of a site, so the true cell lies well inside that disc; without it the half-plane intersection could leak across a
        # notch or a hole, where no competitor lies in that direction.
        cell = dom.intersection(Point(p[i]).buffer(2.0 * hmax, 64))
        for j in near:
            if j == i:
                continue
            mid = 0.5 * (p[i] + p[j])
            nrm = (p[j] - p[i]) / np.linalg.norm(p[j] - p[i])
            tng = np.array([-nrm[1], nrm[0]])
            hp = SPoly([mid + big * tng, mid - big * tng, mid - big * tng - big * nrm, mid + big * tng - big * nrm])
            cell = cell.intersection(hp)
            if cell.is_empty:
                break
        want = cell.area
        got = float(mesh.areas[i])
        err = abs(got - want) / max(want, 1e-300)
        worst = max(worst, err)
        nchecked += 1
        if err > TOLERANCES["voronoi"]:
            res.violate("cell-area-is-not-the-clipped-voronoi-area", boundary_site=bool(i in set(np.asarray(mesh.boundary_indices).tolist())), **ctx,
                        detail=dict(det, site=int(i), got=got, want=want))
            break
    res.residual("voronoi_area", worst)
    res.count("sites_under_guard", nchecked)
    res.count("sites_total", n)
    # faces
    tri_of_edge = {}
    for t, tr in enumerate(tri):
        for a, b in ((tr[0], tr[1]), (tr[1], tr[2]), (tr[2], tr[0])):
            tri_of_edge.setdefault((min(a, b), max(a, b)), []).append(t)
    nface = 0
    worst = 0.0
    for k, (i, j) in enumerate(uniq):
        ts = tri_of_edge[(i, j)]
        if not all(good_tri[t] for t in ts):
            continue
        # neighbours' triangles must be good as well so that the face is not cut by a non-Delaunay neighbour
        if not (site_ok[i] and site_ok[j]):
            continue
        mid = 0.5 * (p[i] + p[j])
        nrm = (p[j] - p[i]) / np.linalg.norm(p[j] - p[i])
        tng = np.array([-nrm[1], nrm[0]])
        lo, hi = -2.0 * hmax, 2.0 * hmax  # same argument as for the cells
        near = np.where((np.linalg.norm(p - mid, axis=1) < 4.0 * hmax))[0]
        for q_ in near:
            if q_ in (i, j):
                continue
            # points x = mid + s*tng closer to i than to q:  (x - m_iq) . (q - i) <= 0
            w = p[q_] - p[i]
            miq = 0.5 * (p[i] + p[q_])
            a_ = tng @ w
            b_ = (mid - miq) @ w
            if abs(a_) < 1e-300:
                if b_ > 0:
                    lo, hi = 1.0, 0.0
                    break
                continue
            sstar = -b_ / a_
            if a_ > 0:
                hi = min(hi, sstar)
            else:
                lo = max(lo, sstar)
        if hi <= lo:
            want = 0.0
        else:
            seg = LineString([mid + lo * tng, mid + hi * tng]).intersection(dom)
            # keep only the piece attached to the edge's own neighbourhood (the component nearest to the edge midpoint)
            if seg.geom_type == "MultiLineString":
                seg = min(seg.geoms, key=lambda g: g.distance(Point(mid)))
            want = seg.length
        got = float(em.dual_edge_lengths[k])
        err = abs(got - want) / max(want, 1e-3 * hmax)
        worst = max(worst, err)
        nface += 1
        if err > TOLERANCES["voronoi"]:
            res.violate("dual-edge-length-is-not-the-clipped-voronoi-face", boundary_edge=bool(bmask[k]), **ctx, detail=dict(det, edge=[int(i), int(j)], got=got, want=want))
            break
    res.residual("voronoi_face", worst)
    res.count("edges_under_guard", nface)
    # ---- 5. terminal lengths ---------------------------------------------------------------------
    if dev.terminals:
        info = {t.name: t for t in dev.terminal_info()}
        blens = np.linalg.norm(bend[:, 1] - bend[:, 0], axis=1) * xi
        for term in dev.terminals:
            tp = SPoly(np.asarray(term.points))
            film_out = SPoly(np.asarray(dev.film.points)).boundary
            want = film_out.intersection(tp).length
            for h in dev.holes:
                want += SPoly(np.asarray(h.points)).boundary.intersection(tp).length
            got = float(info[term.name].length)
            if abs(got - want) > 2 * blens.max() + 1e-9:
                res.violate("terminal-length", **ctx, detail=dict(det, terminal=term.name, got=got, want=want, max_boundary_edge=float(blens.max())))
            if got <= 0:
                res.violate("terminal-length-zero", **ctx, detail=det)
            # the documented rule, recomputed from this mesh alone: the boundary edges (incidence count 1) whose centre lies in the terminal polygon
            mids = 0.5 * (bend[:, 0] + bend[:, 1]) * xi
            dmid = shapely.distance(shapely.points(mids), tp.boundary)
            if dmid.min() > 1e-7:
                inside = shapely.contains(tp, shapely.points(mids))
                exact = float(blens[inside].sum())
                res.count("terminal_lengths_recomputed")
                res.residual("terminal_length_exact", abs(got - exact) / max(exact, 1e-12))
                if abs(got - exact) > 1e-9 * max(exact, 1.0):
                    res.violate("terminal-length-is-not-that-of-its-boundary-edges", **ctx, detail=dict(det, terminal=term.name, got=got, want=exact))
                sidx = np.asarray(info[term.name].site_indices)
                bsites = np.unique(uniq[bmask])
                dsite = shapely.distance(shapely.points(p[bsites] * xi), tp.boundary)
                if dsite.min() > 1e-7:
                    want_sites = bsites[shapely.contains(tp, shapely.points(p[bsites] * xi))]
                    if not np.array_equal(np.sort(sidx), np.sort(want_sites)):
                        res.violate("terminal-sites-are-not-the-boundary-sites-inside-the-terminal", **ctx, detail=dict(det, terminal=term.name, got=len(sidx), want=len(want_sites)))
    res.nontrivial = nchecked > 5
    res.outcome = f"meshed;smooth={case['smooth']}"
    return res
