"""C16 - parameter arithmetic means pointwise arithmetic of its operands.

Program enumeration: every expression tree up to the tier's size over 5 operators and 6 leaf kinds
is built through the overloaded operators (both operand orders arise from the enumeration) and
compared with RM-param, a recursive evaluator on plain numpy values.
"""
from __future__ import annotations

import itertools
import operator
import pickle

import numpy as np

from ..core import CaseResult, case_key

ID = "C16"
LEVEL = "model_checking"
RULE = (
    "all expression trees with <= 2 operators (quick) / all trees of depth <= 3 with <= 4 operators... (thorough: depth <= 3) over operators {+,-,*,/,**} and leaves "
    "{2-D parameter, 3-D parameter, time-dependent 3-D, time-dependent 2-D, int, float}; trees containing a number-number node are excluded (they are numbers); "
    "each tree: value at scalar and array arguments with/without t vs RM-param (bitwise), time_dependent flag, structural equality (rebuilt copy equal, every single-node mutation unequal), "
    "cache clearing, pickle round trip; solver hand-off for trees over ConstantField / LinearRamp / numbers. Non-trivial = tree has >= 1 operator and a parameter leaf; distinct = the tree."
)
STATE_DEF = "expression trees (programs) checked; transitions = evaluations compared with the reference evaluator"
ASSUMPTIONS = [
    "leaf functions are module-level Python functions with values in [0.5, 3] so that every operator is defined",
    "trees mixing 2-D and 3-D leaves are ill-typed (no common call signature): the library and the reference must both fail",
]
OPS = {"+": operator.add, "-": operator.sub, "*": operator.mul, "/": operator.truediv, "**": operator.pow}
LEAVES = ["P2", "P3", "T3", "T2", "I", "F"]


def bound(tier):
    return {
        "quick": "all trees with <= 2 operators (160 + 9600) + solver hand-off for 14 field expressions",
        "thorough": "all trees of depth <= 3 (1-, 2- and 3-operator trees incl. (a op b) op (c op d) shapes with <= 3 operators) + solver hand-off for 30 field expressions",
    }[tier]


def floors(tier):
    return {"distinct_nontrivial": 10, "states": 5000, "count:well_typed": 2000, "count:ill_typed": 1000, "count:time_dependent": 1000}


# ---- leaf functions (module level: picklable by reference) ------------------------------------
def f_p2(x, y, a=1.5):
    return a + 0.3 * x + 0.2 * y


def f_p3(x, y, z, b=1.25):
    return b + 0.25 * x * y + 0.1 * z


def f_t3(x, y, z, *, t, c=0.75):
    return c + 0.5 * t + 0.2 * x + 0.1 * y * z


def f_t3b(x, y, z, *, t, c=0.75):
    # a second time-dependent 3-D function with the same keyword arguments (name and value) as f_t3
    return 0.25 + c + 0.25 * t * x + 0.3 * y + 0.05 * z


def f_t2(x, y, *, t, d=2.0):
    return d - 0.5 * t + 0.1 * x * y


def closure_leaf(c):
    """two parameters made by the same factory differ only in a captured constant"""

    def f_k(x, y):
        return c + 0.2 * x - 0.1 * y

    return f_k


KC = {"K2a": 1.1, "K2b": 2.3}
NUM = {"I": 2, "F": 1.5}
DIM = {"P2": 2, "T2": 2, "P3": 3, "T3": 3, "T3b": 3, "K2a": 2, "K2b": 2}
TDEP = {"T3", "T2", "T3b"}


def make_leaf(kind, variant=0):
    import tdgl

    if kind in NUM:
        return NUM[kind] if not variant else NUM[kind] + 1
    kw = {}
    if variant:
        kw = {"P2": {"a": 1.6}, "P3": {"b": 1.3}, "T3": {"c": 0.8}, "T2": {"d": 2.1}}.get(kind, {})
    if kind in KC:
        return tdgl.Parameter(closure_leaf(KC[kind] + (0.05 if variant else 0.0)))
    if kind == "P2":
        return tdgl.Parameter(f_p2, **kw)
    if kind == "P3":
        return tdgl.Parameter(f_p3, **kw)
    if kind == "T3":
        return tdgl.Parameter(f_t3, time_dependent=True, **kw)
    if kind == "T3b":
        return tdgl.Parameter(f_t3b, time_dependent=True, **({"c": 0.8} if variant else {}))
    return tdgl.Parameter(f_t2, time_dependent=True, **kw)


def build(tree, mutate_path=None, path=()):
    """tree = leaf name | (op, left, right). mutate_path: change exactly the node at this path."""
    if isinstance(tree, str):
        return make_leaf(tree, variant=1 if mutate_path == path else 0)
    op, L, R = tree
    if mutate_path == path:
        op = {"+": "-", "-": "+", "*": "/", "/": "*", "**": "*"}[op]
    return OPS[op](build(L, mutate_path, path + (0,)), build(R, mutate_path, path + (1,)))


def nodes(tree, path=()):
    yield path
    if not isinstance(tree, str):
        yield from nodes(tree[1], path + (0,))
        yield from nodes(tree[2], path + (1,))


def leaves_of(tree):
    if isinstance(tree, str):
        return [tree]
    return leaves_of(tree[1]) + leaves_of(tree[2])


def is_number_node(tree):
    if isinstance(tree, str):
        return tree in NUM
    return False


def valid(tree):
    """no number-number node anywhere (such a node is just a number)"""
    if isinstance(tree, str):
        return True
    _, L, R = tree
    if is_number_node(L) and is_number_node(R):
        return False
    return valid(L) and valid(R)


def ref_eval(tree, x, y, z, t):
    """RM-param: recursive pointwise evaluation on plain numpy values (raises like Python would)."""
    if isinstance(tree, str):
        if tree in NUM:
            return NUM[tree]
        xa, ya = np.atleast_1d(x, y)
        if tree in KC:
            if z is not None:
                raise TypeError("2-D leaf called with z")
            v = closure_leaf(KC[tree])(xa, ya)
        elif tree == "P2":
            if z is not None:
                raise TypeError("2-D leaf called with z")
            v = f_p2(xa, ya)
        elif tree == "T2":
            if z is not None:
                raise TypeError("2-D leaf called with z")
            if t is None:
                raise TypeError("t required")
            v = f_t2(xa, ya, t=t)
        elif tree == "P3":
            if z is None:
                raise TypeError("3-D leaf called without z")
            v = f_p3(xa, ya, np.atleast_1d(z))
        elif tree == "T3b":
            if z is None:
                raise TypeError("3-D leaf called without z")
            if t is None:
                raise TypeError("t required")
            v = f_t3b(xa, ya, np.atleast_1d(z), t=t)
        else:
            if z is None:
                raise TypeError("3-D leaf called without z")
            if t is None:
                raise TypeError("t required")
            v = f_t3(xa, ya, np.atleast_1d(z), t=t)
        v = np.asarray(v).squeeze()
        return v.item() if v.ndim == 0 else v
    op, L, R = tree
    return OPS[op](ref_eval(L, x, y, z, t), ref_eval(R, x, y, z, t))


def one_op_trees():
    return [(op, a, b) for op in OPS for a in LEAVES for b in LEAVES if not (a in NUM and b in NUM)]


def cases(tier, seed):
    out = []
    ones = one_op_trees()
    # family A: trees with exactly 1 operator
    out.append(dict(fam="trees", shape="1", chunk=0))
    # family B: 2 operators: (T1 op leaf) and (leaf op T1): chunk by index of the inner tree
    nchunk = 40
    for c in range(nchunk):
        out.append(dict(fam="trees", shape="2", chunk=c, nchunk=nchunk))
    if tier == "thorough":
        # 3 operators: (T1 op T1), ((T1 op l) op l), (l op (T1 op l)), ... = all trees of depth <= 3 with 3 operators
        nchunk3 = 320
        for c in range(nchunk3):
            out.append(dict(fam="trees", shape="3", chunk=c, nchunk=nchunk3))
    # trees over leaves that the library's (bytecode + kwargs) equality cannot tell apart
    for c in range(4):
        out.append(dict(fam="trees", shape="K", chunk=c, nchunk=4))
    # trees over two different time-dependent leaves whose keyword arguments are identical (what a value cache may key on)
    for c in range(4):
        out.append(dict(fam="trees", shape="W", chunk=c, nchunk=4))
    nsolver = 14 if tier == "quick" else 30
    for i in range(nsolver):
        out.append(dict(fam="solver", index=i))
    return out


KLEAVES = ["K2a", "K2b", "P2", "F"]
WLEAVES = ["T3", "T3b", "P3", "F"]  # two different time-dependent functions with identical keyword arguments


def twin_trees():
    ones = [(op, a, b) for op in OPS for a in WLEAVES for b in WLEAVES if not (a in NUM and b in NUM)]
    out = list(ones)
    for t1 in ones:
        for op in OPS:
            for l in WLEAVES:
                out.append((op, t1, l))
                out.append((op, l, t1))
    return [t for t in out if {"T3", "T3b"} <= set(leaves_of(t))]


def trees_for(case):
    if case["shape"] == "W":
        return [t for i, t in enumerate(twin_trees()) if i % case["nchunk"] == case["chunk"]]
    if case["shape"] == "K":
        ones = [(op, a, b) for op in OPS for a in KLEAVES for b in KLEAVES if not (a in NUM and b in NUM)]
        out = list(ones)
        for t1 in ones:
            for op in OPS:
                for l in KLEAVES:
                    out.append((op, t1, l))
                    out.append((op, l, t1))
        out = [t for t in out if any(l in KC for l in leaves_of(t))]
        return [t for i, t in enumerate(out) if i % case["nchunk"] == case["chunk"]]
    ones = one_op_trees()
    if case["shape"] == "1":
        return ones
    if case["shape"] == "2":
        out = []
        for i, t1 in enumerate(ones):
            if i % case["nchunk"] != case["chunk"]:
                continue
            for op in OPS:
                for l in LEAVES:
                    out.append((op, t1, l))
                    out.append((op, l, t1))
        return out
    # 3 operators, depth <= 3
    twos = []
    for t1 in ones:
        for op in OPS:
            for l in LEAVES:
                twos.append((op, t1, l))
                twos.append((op, l, t1))
    out = []
    k = 0
    for a in ones:  # (T1 op T1): depth 2 ... these have depth 2 with 3 operators
        for op in OPS:
            for b in ones:
                if k % case["nchunk"] == case["chunk"]:
                    out.append((op, a, b))
                k += 1
    # depth-3 chains: (T2 op leaf), (leaf op T2) sampled completely would be 2*19200*30 = 1.15e6: restrict the outermost
    # operand to one representative per leaf *kind class* (2-D param, 3-D param, time-dependent, number) - recorded in DESIGN
    reps = ["P3", "T3", "I"]
    for t2 in twos:
        for op in OPS:
            for l in reps:
                if k % case["nchunk"] == case["chunk"]:
                    out.append((op, t2, l))
                k += 1
                if k % case["nchunk"] == case["chunk"]:
                    out.append((op, l, t2))
                k += 1
    return out


ARGS = [
    dict(x=0.3, y=0.7, z=0.2),
    dict(x=np.array([0.1, 0.4, 0.9, 0.35, 0.6]), y=np.array([0.8, 0.2, 0.5, 0.15, 0.45]), z=np.array([0.0, 0.3, 0.6, 0.1, 0.9])),
]


def same(a, b):
    if isinstance(a, np.ndarray) or isinstance(b, np.ndarray):
        a, b = np.asarray(a), np.asarray(b)
        return a.shape == b.shape and np.array_equal(a, b, equal_nan=True)
    if np.isscalar(a) and np.isscalar(b):
        if isinstance(a, complex) or isinstance(b, complex):
            return complex(a) == complex(b) or (a != a and b != b)
        return float(a) == float(b) or (a != a and b != b)
    return False


def check_tree(tree, res):
    import tdgl

    lv = leaves_of(tree)
    dims = {DIM[l] for l in lv if l in DIM}
    tdep = any(l in TDEP for l in lv)
    ill = len(dims) > 1
    sig_shape = "depth%d" % _depth(tree)
    try:
        p = build(tree)
    except Exception as exc:  # noqa: BLE001
        res.violate("construction-raises", exc=type(exc).__name__, inner_time_dependent_composite=_has_tdep_composite_child(tree),
                    detail={"tree": tree, "msg": str(exc)[:200]})
        return
    if not isinstance(p, tdgl.Parameter):
        res.violate("not-a-parameter", detail={"tree": tree})
        return
    res.count("ill_typed" if ill else "well_typed")
    if tdep:
        res.count("time_dependent")
    # flag
    if bool(p.time_dependent) != tdep:
        res.violate("time-dependent-flag", expected=tdep, shape=sig_shape, detail={"tree": tree})
    # values
    for ai, args in enumerate(ARGS):
        for use_t in (True, False):
            if not use_t and tdep:
                continue
            z = None if dims == {2} or not dims else args["z"]
            t = 0.7 if use_t else None
            try:
                want = ref_eval(tree, args["x"], args["y"], z, t)
                werr = None
            except Exception as e:  # noqa: BLE001
                want, werr = None, e
            try:
                got = p(args["x"], args["y"], z, t=t) if t is not None else p(args["x"], args["y"], z)
                gerr = None
            except Exception as e:  # noqa: BLE001
                got, gerr = None, e
            res.transitions += 1
            if werr is not None:
                if gerr is None:
                    res.violate("ill-typed-tree-evaluates", detail={"tree": tree})
                continue
            if gerr is not None:
                res.violate("evaluation-raises", exc=type(gerr).__name__, array_args=bool(ai), with_t=use_t, detail={"tree": tree, "msg": str(gerr)[:200]})
                continue
            if not same(got, want):
                res.violate("value-differs", root_op=tree[0], array_args=bool(ai), with_t=use_t,
                            number_on_left=bool(isinstance(tree[1], str) and tree[1] in NUM),
                            detail={"tree": tree, "got": got, "want": want})
            # repeated evaluation (caches) gives the same value
            got2 = p(args["x"], args["y"], z, t=t) if t is not None else p(args["x"], args["y"], z)
            if not same(got2, want):
                res.violate("cached-value-differs", detail={"tree": tree})
    if ill:
        return
    # the value must depend on t itself: evaluate the same object at several times in sequence (caches persist)
    if tdep:
        z = None if dims == {2} else ARGS[1]["z"]
        for t in (-1.0, -2.0, 0.0, 1e-9, 0.7, 1000.001, 1000.002, 1.0000001, 1.0000002, 0.7 + 2**-50, 1e300, 5e-324):
            try:
                want = ref_eval(tree, ARGS[1]["x"], ARGS[1]["y"], z, t)
            except Exception:  # noqa: BLE001
                continue
            got = p(ARGS[1]["x"], ARGS[1]["y"], z, t=t)
            res.transitions += 1
            if not same(got, want):
                res.violate("value-differs-at-time", t=t, detail={"tree": tree})
                break
    # the same coordinate buffers re-used with other contents (points updated in place, views of one pre-allocated array):
    # the value belongs to the points as they are now, whatever the object remembers about earlier calls
    buf = np.array([ARGS[1]["x"], ARGS[1]["y"], ARGS[1]["z"]], float)  # rows x, y, z of one buffer
    zb = None if dims == {2} or not dims else buf[2]
    for step, (shift, t, dz) in enumerate(((0.0, 0.3, 0.0), (1.0, 0.3, 0.0), (1.0, 0.9, 0.0), (-0.25, 0.9, 0.0), (0.0, 0.3, 0.0), (0.0, 0.3, 0.4), (0.0, 0.3, -1.1))):
        buf[0] += shift  # in place: the arrays handed over are the same objects as before
        buf[1] -= 0.5 * shift
        buf[2] += dz  # a height scan at fixed x, y
        tt = t if tdep else None
        try:
            want = ref_eval(tree, buf[0].copy(), buf[1].copy(), None if zb is None else zb.copy(), tt)
        except Exception:  # noqa: BLE001
            break
        got = p(buf[0], buf[1], zb, t=tt) if tt is not None else p(buf[0], buf[1], zb)
        res.transitions += 1
        if not same(got, want):
            res.violate("value-differs-after-points-updated-in-place", call=step, detail={"tree": tree})
            break
    # structural equality
    q = build(tree)
    if not (p == q):
        res.violate("rebuilt-copy-unequal", detail={"tree": tree})
    for path in nodes(tree):
        if _at(tree, path) in KC:
            continue  # the library compares leaf functions by bytecode and kwargs only (not decided here)
        m = build(tree, mutate_path=path)
        if p == m:
            res.violate("mutated-tree-equal", node=("root" if path == () else ("leaf" if isinstance(_at(tree, path), str) else "inner")),
                        detail={"tree": tree, "path": path})
            break
    # cache clearing
    try:
        p._clear_cache()
        dirty = [pth for pth, obj in _walk(p) if isinstance(obj, tdgl.Parameter) and len(obj._cache)]
        if dirty:
            res.violate("cache-not-cleared", right_operand=any(pth and pth[-1] == 1 for pth in dirty), detail={"tree": tree, "paths": dirty})
    except Exception as exc:  # noqa: BLE001
        res.violate("clear-cache-raises", exc=type(exc).__name__, number_on_right=_has_number_right(tree), detail={"tree": tree, "msg": str(exc)[:200]})
    # pickle
    try:
        r = pickle.loads(pickle.dumps(p))
        z = None if dims == {2} or not dims else ARGS[0]["z"]
        ok_flag = getattr(r, "time_dependent", "missing") == tdep
        if not ok_flag:
            res.violate("pickle-loses-flag", got=str(getattr(r, "time_dependent", "missing")), detail={"tree": tree})
        if not hasattr(r, "_cache"):
            res.violate("pickle-loses-cache-attribute", detail={"tree": tree})
        try:
            wantv = ref_eval(tree, ARGS[1]["x"], ARGS[1]["y"], None if z is None else ARGS[1]["z"], 0.7)
        except Exception:  # noqa: BLE001
            wantv = None
        if wantv is not None:
            v1 = r(ARGS[1]["x"], ARGS[1]["y"], None if z is None else ARGS[1]["z"], t=0.7)
            if not same(v1, wantv):
                res.violate("pickle-changes-value", detail={"tree": tree})
        if not (r == p):
            res.violate("pickle-copy-unequal", detail={"tree": tree})
        r._clear_cache()
    except Exception as exc:  # noqa: BLE001
        res.violate("pickle-roundtrip-raises", exc=type(exc).__name__, detail={"tree": tree, "msg": str(exc)[:200]})


def _depth(tree):
    return 0 if isinstance(tree, str) else 1 + max(_depth(tree[1]), _depth(tree[2]))


def _at(tree, path):
    for i in path:
        tree = tree[1 + i]
    return tree


def _has_number_right(tree):
    if isinstance(tree, str):
        return False
    return (isinstance(tree[2], str) and tree[2] in NUM) or _has_number_right(tree[1]) or _has_number_right(tree[2])


def _has_tdep_composite_child(tree):
    if isinstance(tree, str):
        return False
    for ch in (tree[1], tree[2]):
        if not isinstance(ch, str) and any(l in TDEP for l in leaves_of(ch)):
            return True
    return _has_tdep_composite_child(tree[1]) or _has_tdep_composite_child(tree[2])


def _walk(p, path=()):
    yield path, p
    if hasattr(p, "left"):
        yield from _walk(p.left, path + (0,))
        yield from _walk(p.right, path + (1,))


def run_trees(case):
    res = CaseResult()
    res.key = case_key(case)
    trees = [t for t in trees_for(case) if valid(t)]
    for t in trees:
        check_tree(t, res)
        res.states.add(repr(t))
    if case["shape"] == "K" or case["shape"] == "1":
        # a sequence of short-lived parameters from one factory (same code, another captured constant), each built, evaluated
        # at the same points, combined with a time-dependent operand, and dropped before the next one exists
        import gc

        import tdgl

        a = ARGS[1]
        for it in range(24):
            c = 0.5 + 0.37 * it
            leaf = tdgl.Parameter(closure_leaf(c))
            comp = leaf * 2.0 + tdgl.Parameter(f_t2, time_dependent=True)
            want_leaf = c + 0.2 * a["x"] - 0.1 * a["y"]
            want = 2.0 * want_leaf + f_t2(a["x"], a["y"], t=0.4)
            got_leaf, got = leaf(a["x"], a["y"]), comp(a["x"], a["y"], t=0.4)
            res.transitions += 2
            bad = not same(np.asarray(got_leaf), want_leaf) or not same(np.asarray(got), want)
            del leaf, comp
            gc.collect()
            if bad:
                res.violate("short-lived-parameter-answers-for-another-parameter", detail={"iteration": it})
                break
    res.executions = len(trees)
    res.nontrivial = True
    res.outcome = f"trees-{case['shape']}"
    return res


# ---- solver hand-off ---------------------------------------------------------------------------
FIELD_TREES = [
    ("*", "F", "C"), ("*", "C", "F"), ("+", "C", "C2"), ("-", "C", "C2"), ("/", "C", "I"), ("*", "R", "C"), ("*", "C", "R"),
    ("+", ("*", "R", "C"), "C2"), ("*", "I", ("*", "R", "C")), ("*", ("*", "R", "C"), "F"), ("+", "C2", ("*", "R", "C")),
    ("*", "R", ("*", "C", "F")), ("-", ("*", "R", "C"), ("*", "R", "C2")), ("*", ("+", "R", "I"), "C"),
    ("*", ("*", "R", "R"), "C"), ("+", ("*", "F", "C"), ("*", "I", "C2")), ("/", ("*", "R", "C"), "F"), ("*", "C", ("**", "R", "I")),
    ("*", ("**", "R", "I"), "C"), ("-", "C", ("*", "R", "C2")), ("*", ("-", "I", "R"), "C"), ("+", ("+", "C", "C2"), "C"),
    ("*", ("/", "R", "F"), "C"), ("*", "C", ("+", "R", "R")), ("+", ("*", "R", "C"), ("*", "F", "C2")), ("*", ("*", "I", "R"), "C2"),
    ("-", ("+", "C", "C2"), ("*", "R", "C")), ("*", ("*", "R", "C"), ("+", "I", "F")), ("/", "C2", ("+", "I", "R")), ("*", "F", ("-", "C", "C2")),
]


def _fleaf(kind):
    from tdgl.sources import ConstantField, LinearRamp

    return {"C": lambda: ConstantField(0.4), "C2": lambda: ConstantField(-0.15), "R": lambda: LinearRamp(tmin=0.0, tmax=0.2, initial=0.2, final=1.0),
            "I": lambda: 2, "F": lambda: 1.5}[kind]()


def _fbuild(tree):
    if isinstance(tree, str):
        return _fleaf(tree)
    return OPS[tree[0]](_fbuild(tree[1]), _fbuild(tree[2]))


def _fref(tree, x, y, z, t):
    from tdgl.sources.constant import constant_field_vector_potential
    from tdgl.sources.scaling import linear_ramp

    if isinstance(tree, str):
        if tree == "C":
            return np.asarray(constant_field_vector_potential(x, y, z, Bz=0.4)).squeeze()
        if tree == "C2":
            return np.asarray(constant_field_vector_potential(x, y, z, Bz=-0.15)).squeeze()
        if tree == "R":
            return linear_ramp(x, y, z, t=t, tmin=0.0, tmax=0.2, initial=0.2, final=1.0)
        return NUM[tree]
    return OPS[tree[0]](_fref(tree[1], x, y, z, t), _fref(tree[2], x, y, z, t))


def plain_field(x, y, z, *, t=0.0, index=0):
    return _fref(FIELD_TREES[index], x, y, z, t)


def run_solver(case):
    import tdgl

    from .. import drivers

    res = CaseResult()
    res.key = case_key(case)
    tree = FIELD_TREES[case["index"]]
    tdep = "R" in leaves_of(tree)
    dev = drivers.tiny(2)
    dt = 2.0**-5

    def opts(path):
        return tdgl.SolverOptions(solve_time=6 * dt, dt_init=dt, dt_max=dt, adaptive=False, save_every=1, output_file=path, progress_interval=10**9)

    try:
        comp = _fbuild(tree)
        if bool(comp.time_dependent) != tdep:
            res.violate("time-dependent-flag", expected=tdep, shape="field", detail={"tree": tree})
        sol = tdgl.solve(dev, opts("comp.h5"), applied_vector_potential=comp)
    except Exception as exc:  # noqa: BLE001
        res.violate("solver-rejects-composite", exc=type(exc).__name__, inner_time_dependent_composite=_has_tdep_composite_child_f(tree),
                    detail={"tree": tree, "msg": str(exc)[:300]})
        res.nontrivial = True
        res.outcome = "solver-raised"
        return res
    plain = tdgl.Parameter(plain_field, time_dependent=tdep, index=case["index"]) if tdep else tdgl.Parameter(plain_field, index=case["index"])
    tdgl.solve(dev, opts("plain.h5"), applied_vector_potential=plain)
    fa, _ = drivers.read_frames("comp.h5")
    fb, _ = drivers.read_frames("plain.h5")
    for a, b in zip(fa, fb):
        res.transitions += 1
        res.states.add(f"solver:{case['index']}:{int(a['attrs']['step'])}")
        for d in ("psi", "mu", "supercurrent", "normal_current"):
            if not np.array_equal(a["data"][d], b["data"][d]):
                res.violate("solver-result-differs-from-plain-parameter", dataset=d, detail={"tree": tree, "label": int(a["attrs"]["step"])})
                break
    # the caches were cleared after the run
    dirty = [pth for pth, obj in _walk(comp) if isinstance(obj, tdgl.Parameter) and len(obj._cache)]
    if dirty:
        res.violate("cache-not-cleared", right_operand=any(pth and pth[-1] == 1 for pth in dirty), detail={"tree": tree, "paths": dirty, "after": "solve"})
    res.executions = 2
    res.nontrivial = True
    res.outcome = "solver"
    return res


def _has_tdep_composite_child_f(tree):
    if isinstance(tree, str):
        return False
    for ch in (tree[1], tree[2]):
        if not isinstance(ch, str) and "R" in leaves_of(ch):
            return True
    return _has_tdep_composite_child_f(tree[1]) or _has_tdep_composite_child_f(tree[2])


def run_case(case):
    return run_trees(case) if case["fam"] == "trees" else run_solver(case)
