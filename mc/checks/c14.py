"""C14 - saved devices, meshes, solutions and parameters load back unchanged.

Exhaustive products of (device composition x storage flags), (option field x value class),
(parameter expression trees) and (solution routes); a strict structural comparer (bitwise arrays,
equal scalars including None, polygons keyed by name) plus the library's own == plus behavioural
equality after reload.
"""
from __future__ import annotations

import dataclasses
import itertools
import pickle
import shutil

import numpy as np

from ..core import CaseResult, case_key

ID = "C14"
LEVEL = "exploration"
RULE = (
    "device: holes x terminals x probes (8) x mesh {present, absent} x save_mesh x route {path, group, pickle, cloudpickle}; mesh: full vs compressed vs recomputed; "
    "options: every SolverOptions field x {default, non-default, None where the type allows} attached to a stored run; parameters: every expression tree with <= 1 (quick) / <= 2 (thorough) operators "
    "through pickle and through Solution.to_hdf5/from_hdf5; solutions: 4 physics inputs x {on disk, memory only}, every recorded step loaded on both sides. "
    "Non-trivial = the object has at least one non-default / optional component; distinct = case parameters."
)
ASSUMPTIONS = [
    "strict comparison: arrays bitwise, scalars equal in value and kind (numpy scalar vs python scalar allowed), None only equal to None, polygons matched by name",
    "option values that cannot be validated in this sandbox (gpu=True, umfpack/pardiso/cupy solvers) are outside the alphabet",
]


def bound(tier):
    return {
        "quick": "8 device compositions x 2 mesh x 2 save_mesh x 4 routes; 24 option fields x <=3 value classes; 160 one-operator trees x 2 routes; 4 physics x 2 routes",
        "thorough": "same + all pairs of non-default option fields; all trees with <= 2 operators (9760) x 2 routes; 6 physics x 2 routes x 2 save intervals",
    }[tier]


def floors(tier):
    return {"distinct_nontrivial": 100, "count:roundtrips": 300}


OPTION_VARIANTS = {
    "solve_time": [7.5, 1e9, 1e-9],
    "skip_time": [0.25, 1e-12],
    "dt_init": [1e-4, 1e-13],
    "dt_max": [0.05, 1e6],
    "adaptive": [False],
    "adaptive_window": [3],
    "max_solve_retries": [4],
    "adaptive_time_step_multiplier": [0.5],
    "output_file": ["somewhere/else.h5", None],
    "terminal_psi": [None, 0.5, 0.6 + 0.8j, 1.0],
    "pause_on_interrupt": [False],
    "save_every": [7],
    "progress_interval": [5],
    "monitor": [True],
    "monitor_update_interval": [2.5],
    "field_units": ["uT"],
    "current_units": ["nA"],
    "include_screening": [True],
    "max_iterations_per_step": [77],
    "screening_tolerance": [1e-5, 1e-14],
    "screening_step_size": [0.3, 1e-9],
    "screening_step_drag": [0.9],
}


def cases(tier, seed):
    out = []
    for holes, terms, probes, mesh, save_mesh, route in itertools.product((0, 1), (0, 1), (0, 1), (0, 1), (0, 1), ("path", "group", "pickle", "cloudpickle")):
        out.append(dict(fam="device", holes=holes, terminals=terms, probes=probes, mesh=mesh, save_mesh=save_mesh, route=route))
    # layer attribute value classes: zero-valued (falsy), negative, integer-typed, None
    for lay, route in itertools.product(("zeros", "negative_z0", "ints", "tiny"), ("path", "group", "pickle", "solution")):
        out.append(dict(fam="device", holes=1, terminals=1, probes=1, mesh=1, save_mesh=1, route=route, layer=lay))
    for m in ("G2", "G3", "G7s", "tiny"):
        out.append(dict(fam="mesh", mesh=m))
    for m, hist in itertools.product(("G2", "G3") if tier == "quick" else ("G1", "G2", "G3", "G5", "G7"),
                                     ("translated_inplace", "translated_twice", "translated_copy", "inside_translation_context", "after_translation_context")):
        out.append(dict(fam="mesh", mesh=m, history=hist))
    for k, vs in OPTION_VARIANTS.items():
        for i in range(len(vs)):
            out.append(dict(fam="options", fields=[[k, i]]))
    out.append(dict(fam="options", fields=[]))
    if tier == "thorough":
        keys = list(OPTION_VARIANTS)
        for a, b in itertools.combinations(keys, 2):
            out.append(dict(fam="options", fields=[[a, 0], [b, 0]]))
    nch = 8 if tier == "quick" else 64
    for c in range(nch):
        out.append(dict(fam="param", ops=1 if tier == "quick" else 2, chunk=c, nchunk=nch))
    phys = ["static", "tdep", "callable_current", "callable_eps"] + (["composite_tdep", "screening"] if tier == "thorough" else [])
    for p, route in itertools.product(phys, ("disk", "memory", "chain")):
        for k in (2,) if tier == "quick" else (1, 3):
            out.append(dict(fam="solution", phys=p, route=route, k=k))
    if tier == "quick":
        for p, route in itertools.product(("composite_tdep", "screening"), ("disk", "chain")):
            out.append(dict(fam="solution", phys=p, route=route, k=1))
    # without voltage probes (optional records partly absent), all routes
    for p, route in itertools.product(("static", "screening"), ("disk", "memory", "chain")):
        out.append(dict(fam="solution", phys=p, route=route, k=2, probes=False))
    out.append(dict(fam="solution", phys="screening", route="memory", k=2))
    # the file a run writes is itself a saved solution: it is loaded as it stands, without an explicit to_hdf5 by the caller
    for p in ("static", "tdep", "callable_current", "callable_eps", "composite_tdep", "screening"):
        for k in (2,) if tier == "quick" else (1, 2, 3):
            out.append(dict(fam="solution", phys=p, route="direct", k=k))
    out.append(dict(fam="solution", phys="static", route="direct", k=2, probes=False))
    return out


# ---------------------------------------------------------------------------------------------
def _kind(v):
    if isinstance(v, (bool, np.bool_)):
        return "bool"
    if isinstance(v, (int, np.integer)):
        return "int"
    if isinstance(v, (float, np.floating)):
        return "float"
    if isinstance(v, (complex, np.complexfloating)):
        return "complex"
    if isinstance(v, (str, np.str_)):
        return "str"
    return type(v).__name__


def strict_scalar(a, b):
    if a is None or b is None:
        return a is None and b is None
    ka, kb = _kind(a), _kind(b)
    if {ka, kb} <= {"int", "float"}:
        return float(a) == float(b)
    if ka != kb:
        return False
    return a == b


def strict_array(a, b):
    if a is None or b is None:
        return a is None and b is None
    a, b = np.asarray(a), np.asarray(b)
    return a.shape == b.shape and a.dtype.kind == b.dtype.kind and np.array_equal(a, b)


def cmp_polygon(a, b, where, out):
    if not strict_scalar(a.name, b.name):
        out.append(f"{where}.name")
    if not strict_array(a.points, b.points):
        out.append(f"{where}.points")
    if bool(a.mesh) != bool(b.mesh):
        out.append(f"{where}.mesh-flag")


def cmp_mesh(a, b, where, out):
    if a is None or b is None:
        if not (a is None and b is None):
            out.append(f"{where}:presence")
        return
    for nm in ("sites", "elements", "boundary_indices", "areas", "dual_sites"):
        if not strict_array(getattr(a, nm), getattr(b, nm)):
            out.append(f"{where}.{nm}")
    ea, eb = a.edge_mesh, b.edge_mesh
    for nm in ("centers", "edges", "boundary_edge_indices", "directions", "normalized_directions", "edge_lengths", "dual_edge_lengths"):
        if not strict_array(getattr(ea, nm), getattr(eb, nm)):
            out.append(f"{where}.edge_mesh.{nm}")
    if len(a.voronoi_polygons) != len(b.voronoi_polygons) or not all(
        strict_array(p, q) for p, q in zip(a.voronoi_polygons, b.voronoi_polygons)
    ):
        out.append(f"{where}.voronoi_polygons")


def cmp_device(a, b, out, check_mesh=True):
    if not strict_scalar(a.name, b.name):
        out.append("device.name")
    if not strict_scalar(a.length_units, b.length_units):
        out.append("device.length_units")
    for nm in ("london_lambda", "coherence_length", "thickness", "conductivity", "u", "gamma", "z0"):
        if not strict_scalar(getattr(a.layer, nm), getattr(b.layer, nm)):
            out.append(f"layer.{nm}")
    cmp_polygon(a.film, b.film, "film", out)
    for grp in ("holes", "terminals"):
        da = {p.name: p for p in getattr(a, grp)}
        db = {p.name: p for p in getattr(b, grp)}
        if set(da) != set(db):
            out.append(f"{grp}:names")
            continue
        for n in da:
            cmp_polygon(da[n], db[n], f"{grp}[{n}]", out)
    if not strict_array(a.probe_points, b.probe_points):
        out.append("probe_points")
    if check_mesh:
        cmp_mesh(a.mesh, b.mesh, "mesh", out)


def behaviour_device(a, b, out):
    lat = np.stack(np.meshgrid(np.linspace(-4.05, 4.07, 23), np.linspace(-3.03, 3.01, 19)), axis=-1).reshape(-1, 2)
    if not np.array_equal(a.contains_points(lat), b.contains_points(lat)):
        out.append("behaviour:contains_points")
    if a.mesh is not None and b.mesh is not None:
        ta = {t.name: t for t in a.terminal_info()}
        tb = {t.name: t for t in b.terminal_info()}
        if set(ta) != set(tb):
            out.append("behaviour:terminal_info-names")
        else:
            for n in ta:
                if not (np.array_equal(ta[n].site_indices, tb[n].site_indices) and np.array_equal(ta[n].boundary_edge_indices, tb[n].boundary_edge_indices)
                        and ta[n].length == tb[n].length):
                    out.append(f"behaviour:terminal_info[{n}]")
        if a.probe_point_indices != b.probe_point_indices:
            out.append("behaviour:probe_point_indices")


def make_device(holes, terminals, probes, mesh, layer_kind=None):
    import tdgl

    from .. import zoo

    g = zoo.geometry("G2", 1.0, terminals=bool(terminals), holes=bool(holes), probes=bool(probes))
    terms = list(g["terminals"])
    if terms:
        terms = [terms[0].copy().set_name("zeta"), terms[1].copy().set_name("alpha")]  # deliberately non-alphabetical
    layer = {
        None: dict(coherence_length=0.9, london_lambda=1.7, thickness=0.12, conductivity=(None if holes else 3.5), gamma=7.0, u=4.2, z0=0.3),
        "zeros": dict(coherence_length=0.9, london_lambda=1.7, thickness=0.12, conductivity=None, gamma=0.0, u=1.0, z0=0.0),
        "negative_z0": dict(coherence_length=0.9, london_lambda=1.7, thickness=0.12, conductivity=0.0, gamma=0, u=5.79, z0=-1.5),
        "ints": dict(coherence_length=1, london_lambda=2, thickness=1, conductivity=3, gamma=3, u=1, z0=0),
        "tiny": dict(coherence_length=0.9, london_lambda=1.7, thickness=1e-9, conductivity=1e-30, gamma=1e-12, u=1e-9, z0=1e-300),
    }[layer_kind]
    dev = tdgl.Device(
        "roundtrip", layer=tdgl.Layer(**layer),
        film=g["film"], holes=g["holes"], terminals=terms, probe_points=g["probe_points"], length_units="um",
    )
    if mesh:
        dev.make_mesh(max_edge_length=1.0)
    return dev


def run_device(case):
    import cloudpickle
    import h5py
    import tdgl

    res = CaseResult()
    res.key = case_key(case)
    dev = make_device(case["holes"], case["terminals"], case["probes"], case["mesh"], case.get("layer"))
    route = case["route"]
    save_mesh = bool(case["save_mesh"])
    try:
        if route == "solution":
            # the device travels inside a saved Solution
            dt = 2.0**-6
            sol = tdgl.solve(dev, tdgl.SolverOptions(solve_time=0.0, dt_init=dt, dt_max=dt, adaptive=False, save_every=1, output_file="devsol.h5",
                                                    progress_interval=10**9), applied_vector_potential=0.1)
            back = tdgl.Solution.from_hdf5("devsol.h5").device
        elif route == "path":
            dev.to_hdf5("dev.h5", save_mesh=save_mesh)
            back = tdgl.Device.from_hdf5("dev.h5")
        elif route == "group":
            with h5py.File("dev2.h5", "w") as f:
                dev.to_hdf5(f.create_group("a/b"), save_mesh=save_mesh)
            with h5py.File("dev2.h5", "r") as f:
                back = tdgl.Device.from_hdf5(f["a/b"])
        elif route == "pickle":
            back = pickle.loads(pickle.dumps(dev))
            save_mesh = True
        else:
            back = cloudpickle.loads(cloudpickle.dumps(dev))
            save_mesh = True
    except Exception as exc:  # noqa: BLE001
        res.violate("device-roundtrip-raises", route=route, exc=type(exc).__name__, detail={"case": case, "msg": str(exc)[:300]})
        res.nontrivial = True
        return res
    res.count("roundtrips")
    diffs = []
    cmp_device(dev, back, diffs, check_mesh=save_mesh)
    if not save_mesh and back.mesh is not None:
        diffs.append("mesh:stored-although-save_mesh=False")
    if not (dev == back):
        diffs.append("library-eq")
    behaviour_device(dev, back, diffs)
    if diffs:
        res.violate("device-roundtrip-differs", route=route, what=",".join(sorted(set(d.split("[")[0] for d in diffs)))[:120], detail={"case": case, "diffs": diffs})
    res.nontrivial = bool(case["holes"] or case["terminals"] or case["probes"] or case["mesh"])
    res.outcome = f"device;{route}"
    return res


def run_mesh(case):
    import h5py
    from tdgl.finite_volume import Mesh

    from . import c10

    res = CaseResult()
    res.key = case_key(case)
    if case.get("history"):
        # the mesh of a device that has a history: moved in place (once, twice, inside a translation context), copied and moved
        from .. import zoo

        dev = zoo.device(case["mesh"], memo=False)
        ctx = None
        if case["history"] == "translated_inplace":
            dev.translate(dx=1.3, dy=-0.45, inplace=True)
        elif case["history"] == "translated_twice":
            dev.translate(dx=1.3, dy=-0.45, inplace=True)
            dev.translate(dx=-0.2, dy=0.7, inplace=True)
        elif case["history"] == "translated_copy":
            dev = dev.copy(with_mesh=True)
            dev.translate(dx=1.3, dy=-0.45, inplace=True)
        elif case["history"] == "inside_translation_context":
            ctx = dev.translation(0.9, 0.35)
            ctx.__enter__()
        elif case["history"] == "after_translation_context":
            with dev.translation(0.9, 0.35):
                pass
        mesh = dev.mesh
    else:
        mesh, _ = c10.get_mesh(case["mesh"])
    with h5py.File("m.h5", "w") as f:
        mesh.to_hdf5(f.create_group("full"))
        mesh.to_hdf5(f.create_group("small"), compress=True)
    with h5py.File("m.h5", "r") as f:
        full = Mesh.from_hdf5(f["full"])
        small = Mesh.from_hdf5(f["small"])
        restorable = (Mesh.is_restorable(f["full"]), Mesh.is_restorable(f["small"]))
    recomputed = Mesh.from_triangulation(mesh.sites, mesh.elements)
    res.count("roundtrips", 2)
    for nm, m2 in (("full", full), ("compressed", small), ("recomputed", recomputed)):
        diffs = []
        cmp_mesh(mesh, m2, nm, diffs)
        if diffs:
            res.violate("mesh-roundtrip-differs", route=nm, detail={"mesh": case["mesh"], "diffs": diffs})
    if restorable != (True, False):
        res.violate("mesh-restorable-flag", detail={"restorable": restorable})
    res.nontrivial = True
    res.outcome = "mesh"
    return res


# ---------------------------------------------------------------------------------------------
_BASE = {}


def base_run():
    """one stored run per worker, reused as the data carrier of option / parameter round trips"""
    import tdgl

    from .. import drivers

    if "path" not in _BASE:
        import os
        import tempfile

        import atexit

        d = tempfile.mkdtemp(prefix=f"c14base-{os.environ.get('VERIF_RUN_TAG', 'x')}-", dir=os.environ.get("TMPDIR", "/tmp"))
        atexit.register(shutil.rmtree, d, True)
        dev = drivers.tiny(2, terminals=True)
        dt = 2.0**-5
        opts = tdgl.SolverOptions(solve_time=4 * dt, dt_init=dt, dt_max=dt, adaptive=False, save_every=2, output_file=os.path.join(d, "base.h5"),
                                  progress_interval=10**9)
        sol = tdgl.solve(dev, opts, applied_vector_potential=0.3, terminal_currents={"source": 1.0, "drain": -1.0})
        _BASE.update(path=sol.path, dev=dev)
    return _BASE["path"], _BASE["dev"]


def run_options(case):
    import tdgl

    res = CaseResult()
    res.key = case_key(case)
    path, dev = base_run()
    shutil.copy(path, "carrier.h5")
    kw = dict(solve_time=2.0)
    for k, i in case["fields"]:
        kw[k] = OPTION_VARIANTS[k][i]
    opts = tdgl.SolverOptions(**kw)
    opts.validate()
    sol = tdgl.Solution(device=dev, options=opts, path="carrier.h5", applied_vector_potential=tdgl.sources.ConstantField(0.3),
                        terminal_currents={"source": 1.0, "drain": -1.0}, disorder_epsilon=1.0, total_seconds=0.5)
    try:
        sol.to_hdf5()
        back = tdgl.Solution.from_hdf5("carrier.h5")
    except Exception as exc:  # noqa: BLE001
        res.violate("options-roundtrip-raises", field=",".join(k for k, _ in case["fields"]), exc=type(exc).__name__, detail={"case": case, "msg": str(exc)[:300]})
        res.nontrivial = True
        return res
    res.count("roundtrips")
    diffs = []
    for f in dataclasses.fields(tdgl.SolverOptions):
        a, b = getattr(opts, f.name), getattr(back.options, f.name)
        if f.name == "sparse_solver":
            ok = a == b
        else:
            ok = strict_scalar(a, b)
        if not ok:
            diffs.append((f.name, repr(a), repr(b)))
    if diffs:
        res.violate("option-not-restored", fields=",".join(d[0] for d in diffs), none_valued=any(d[1] == "None" for d in diffs),
                    detail={"case": case, "diffs": diffs})
    if not (back.options == opts):
        res.violate("options-library-eq", detail={"case": case})
    res.nontrivial = bool(case["fields"])
    res.outcome = "options"
    return res


def run_param(case):
    import tdgl

    from . import c16

    res = CaseResult()
    res.key = case_key(case)
    path, dev = base_run()
    ones = c16.one_op_trees()
    trees = list(ones)
    if case["ops"] == 2:
        for t1 in ones:
            for op in c16.OPS:
                for l in c16.LEAVES:
                    trees.append((op, t1, l))
                    trees.append((op, l, t1))
    trees = trees + c16.twin_trees()  # two different time-dependent leaves with identical keyword arguments
    trees = [t for i, t in enumerate(trees) if i % case["nchunk"] == case["chunk"] and c16.valid(t)]
    args = c16.ARGS[1]
    for tree in trees:
        lv = c16.leaves_of(tree)
        dims = {c16.DIM[l] for l in lv if l in c16.DIM}
        if len(dims) > 1:
            continue
        tdep = any(l in c16.TDEP for l in lv)
        z = None if dims == {2} else args["z"]
        p = c16.build(tree)
        want = p(args["x"], args["y"], z, t=0.7)
        for route in ("pickle", "solution"):
            try:
                if route == "pickle":
                    q = pickle.loads(pickle.dumps(p))
                else:
                    shutil.copy(path, "pcarrier.h5")
                    sol = tdgl.Solution(device=dev, options=tdgl.SolverOptions(solve_time=1.0, save_every=2), path="pcarrier.h5",
                                        applied_vector_potential=p, terminal_currents=None, disorder_epsilon=1.0, total_seconds=0.1)
                    sol.to_hdf5()
                    q = tdgl.Solution.from_hdf5("pcarrier.h5").applied_vector_potential
                res.count("roundtrips")
                got = q(args["x"], args["y"], z, t=0.7)
                bad = []
                if not c16.same(got, want):
                    bad.append("value")
                if getattr(q, "time_dependent", "missing") != tdep:
                    bad.append("time_dependent")
                if not (q == p):
                    bad.append("equality")
                # ... and still after the copy alone has been used elsewhere (other points, other heights)
                a0 = c16.ARGS[0]
                try:
                    q(a0["x"], a0["y"], None if z is None else a0["z"] + 1.5, t=0.1)
                except (ZeroDivisionError, FloatingPointError, OverflowError, ValueError):
                    pass  # the tree is not defined at that point (its own arithmetic); nothing to compare
                if not (q == p) or not (p == q):
                    bad.append("equality-after-use")
                if not c16.same(q(args["x"], args["y"], z, t=0.7), want):
                    bad.append("value-after-use")
                q._clear_cache()
                if bad:
                    res.violate("parameter-roundtrip-differs", route=route, what=",".join(bad), detail={"tree": tree})
            except Exception as exc:  # noqa: BLE001
                res.violate("parameter-roundtrip-raises", route=route, exc=type(exc).__name__, detail={"tree": tree, "msg": str(exc)[:200]})
    res.nontrivial = True
    res.outcome = "param"
    return res


# ---------------------------------------------------------------------------------------------
def _tramp(x, y, z, *, t):
    s = 0.2 + 0.5 * t
    return np.stack([-s * y / 2, s * x / 2, np.zeros_like(x)], axis=1)


def _cur(t):
    return {"source": 1.0 + t, "drain": -1.0 - t}


def _eps(r, *, t=0.0, vectorized=True):
    return 1.0 - 0.3 * np.exp(-((r[:, 0] - 0.2) ** 2 + r[:, 1] ** 2)) * (1 + t)


def run_solution(case):
    import tdgl
    from tdgl.sources import ConstantField, LinearRamp

    from .. import drivers

    res = CaseResult()
    res.key = case_key(case)
    dev = drivers.tiny(2, terminals=True)
    if case.get("probes") is False:
        # a device without voltage probes: no probe records (mu, theta) exist, the other per-step records still do
        base = dev
        dev = tdgl.Device(base.name, layer=base.layer.copy(), film=base.film.copy(), terminals=[t.copy() for t in base.terminals], probe_points=None,
                          length_units=base.length_units)
        dev.mesh = base.mesh
    dt = 2.0**-5
    phys = case["phys"]
    kw = dict(applied_vector_potential=0.3, terminal_currents={"source": 1.0, "drain": -1.0})
    o = dict(solve_time=5 * dt, dt_init=dt, dt_max=dt, adaptive=False, save_every=case["k"], progress_interval=10**9,
             output_file=("run.h5" if case["route"] in ("disk", "direct") else None))
    if phys == "tdep":
        kw["applied_vector_potential"] = tdgl.Parameter(_tramp, time_dependent=True)
    elif phys == "composite_tdep":
        kw["applied_vector_potential"] = LinearRamp(tmin=0, tmax=0.1, initial=0.2) * ConstantField(0.4) + ConstantField(0.1)
    elif phys == "callable_current":
        kw["terminal_currents"] = _cur
    elif phys == "callable_eps":
        kw["disorder_epsilon"] = _eps
    elif phys == "screening":
        o.update(include_screening=True, screening_tolerance=1e-2, terminal_psi=None)
    if case["route"] == "chain":
        o["output_file"] = "run.h5"
    sol = tdgl.solve(dev, tdgl.SolverOptions(**o), **kw)
    try:
        if case["route"] == "chain":
            # reload -> save again (in place and to a new file) -> reload: start from a non-initial (reloaded) object
            sol.to_hdf5()
            first = tdgl.Solution.from_hdf5("run.h5")
            first.solve_step = 1
            first.to_hdf5("copy1.h5")
            second = tdgl.Solution.from_hdf5("copy1.h5")
            second.to_hdf5()
            second.to_hdf5("copy.h5")
            back = tdgl.Solution.from_hdf5("copy.h5")
        elif case["route"] == "direct":
            back = tdgl.Solution.from_hdf5("run.h5")
        else:
            sol.to_hdf5("copy.h5")
            back = tdgl.Solution.from_hdf5("copy.h5")
    except Exception as exc:  # noqa: BLE001
        res.violate("solution-roundtrip-raises", route=case["route"], phys=phys, exc=type(exc).__name__, detail={"case": case, "msg": str(exc)[:300]})
        res.nontrivial = True
        return res
    res.count("roundtrips")
    diffs = []
    cmp_device(sol.device, back.device, diffs)
    behaviour_device(sol.device, back.device, diffs)
    for f in dataclasses.fields(tdgl.SolverOptions):
        a, b = getattr(sol.options, f.name), getattr(back.options, f.name)
        if f.name == "output_file":
            continue  # the location is not part of the content
        if not (a == b if f.name == "sparse_solver" else strict_scalar(a, b)):
            diffs.append(f"options.{f.name}")
    if not back.equals(sol):
        diffs.append("library-equals")
    steps = range(back.data_range[0], back.data_range[1] + 1)
    dt_full = None if sol.dynamics is None else np.array(sol.dynamics.dt, float)
    times_full = np.array(sol.times, float)
    if case["route"] in ("disk", "chain", "direct"):
        if tuple(back.data_range) != tuple(sol.data_range):
            diffs.append("data_range")
        for i in steps:
            sol.solve_step = i
            back.solve_step = i
            for nm in ("psi", "mu", "supercurrent", "normal_current", "induced_vector_potential", "applied_vector_potential", "epsilon"):
                if not strict_array(getattr(sol.tdgl_data, nm), getattr(back.tdgl_data, nm)):
                    diffs.append(f"step{i}.{nm}")
            if dict(sol.tdgl_data.state).keys() != dict(back.tdgl_data.state).keys():
                diffs.append(f"step{i}.state-keys")
            # the per-step records and times of the whole run stay available whichever frame is loaded
            if dt_full is not None and (back.dynamics is None or not np.array_equal(np.asarray(back.dynamics.dt, float), dt_full)):
                diffs.append("dynamics-depend-on-loaded-frame")
            if not np.array_equal(np.asarray(back.times, float), times_full):
                diffs.append("times-depend-on-loaded-frame")
    else:
        for nm in ("psi", "mu", "supercurrent", "normal_current", "induced_vector_potential", "applied_vector_potential", "epsilon"):
            if not strict_array(getattr(sol.tdgl_data, nm), getattr(back.tdgl_data, nm)):
                diffs.append(f"final.{nm}")
    for nm in ("dt", "time", "mu", "theta", "screening_iterations"):
        if not strict_array(getattr(sol.dynamics, nm), getattr(back.dynamics, nm)):
            diffs.append(f"dynamics.{nm}")
    # behaviour of reloaded callables
    x = np.array([0.1, 0.5, -0.7])
    y = np.array([0.3, -0.2, 0.4])
    z = np.zeros(3)
    A1, A2 = sol.applied_vector_potential, back.applied_vector_potential
    tk = dict(t=0.05) if getattr(A1, "time_dependent", False) else {}
    if getattr(A1, "time_dependent", None) != getattr(A2, "time_dependent", "missing"):
        diffs.append("applied_vector_potential.time_dependent")
    elif not np.array_equal(np.asarray(A1(x, y, z, **tk)), np.asarray(A2(x, y, z, **tk))):
        diffs.append("applied_vector_potential.value")
    if callable(sol.terminal_currents):
        if not callable(back.terminal_currents) or back.terminal_currents(0.3) != sol.terminal_currents(0.3):
            diffs.append("terminal_currents.value")
    elif dict(back.terminal_currents) != dict(sol.terminal_currents):
        diffs.append("terminal_currents")
    if callable(sol.disorder_epsilon):
        r = np.column_stack([x, y])
        ek = dict(t=0.1) if phys == "callable_eps" else {}
        if not callable(back.disorder_epsilon) or not np.array_equal(back.disorder_epsilon(r, **ek), sol.disorder_epsilon(r, **ek)):
            diffs.append("disorder_epsilon.value")
    elif not strict_scalar(back.disorder_epsilon, sol.disorder_epsilon):
        diffs.append("disorder_epsilon")
    if diffs:
        res.violate("solution-roundtrip-differs", route=case["route"], phys=phys, what=",".join(sorted(set(d.split(".")[0] for d in diffs)))[:150],
                    detail={"case": case, "diffs": diffs[:30]})
    res.nontrivial = True
    res.outcome = f"solution;{case['route']}"
    return res


def run_case(case):
    return {"device": run_device, "mesh": run_mesh, "options": run_options, "param": run_param, "solution": run_solution}[case["fam"]](case)
