"""C15 - a stopped simulation leaves a clean, readable, truthful output.

E4 fault-point enumeration: every update call (both stages), every frame-writer call and every
HDF5 write operation inside the writer is taken as a stop point, for an injected exception and for
KeyboardInterrupt (pause off / pause on + "n" / pause on + "y"), crossed with output-path shapes
and subsets of pre-existing files.  The real solve()/Runner/DataHandler/Solution run each time;
the update is the scripted environment, so a frame's content *is* its update count.
"""
from __future__ import annotations

import gc
import itertools
import os
import tempfile

import numpy as np

from ..core import CaseResult, case_key
from ..ref import recorder as RM

ID = "C15"
LEVEL = "fault_enumeration"
RULE = (
    "one case = (N, k, thermalisation, fault kind, fault location, output path shape, pre-existing file subset); "
    "fault locations are enumerated completely from a dry run (every update call of both stages, every writer call, "
    "every HDF5 write op inside the writer). Non-trivial = the fault fired (or files pre-existed); distinct = case parameters."
)
ASSUMPTIONS = [
    "the update is the scripted environment (drivers.ScriptedSolver); solve(), Runner, DataHandler, Solution are real",
    "HDF5 write operations = Group.create_group, Group.__setitem__, AttributeManager.__setitem__, Dataset.__setitem__, Dataset.flush",
    "interrupt + resume ('y') is checked for cleanliness and frame completeness only (the statement is about stops)",
    "output paths without an extension and unwritable directories are outside the alphabet (the path search does not terminate there)",
]
DT0 = 2.0**-6
PRE = ["out.h5", "out.h5.tmp", "out-1.h5", "out-1.h5.tmp"]
MID_CHUNKS = 4
CHUNKS = 8  # HDF5-op fault points of one configuration are split over this many cases (op index mod CHUNKS)
DATASETS = ("psi", "mu", "supercurrent", "normal_current", "induced_vector_potential")


def bound(tier):
    return {
        "quick": "N<=3, k in {1,2,3,N+1}, thermal {0,2}; update/writer faults x 4 kinds x outputs {None,out.h5,sub/out.h5}; HDF5-op faults for N in {2,3}, k in {1,2}; 16 pre-existing subsets x {no fault, one fault}",
        "thorough": "N<=5, k in {1,2,3,N+1}, thermal {0,2}; update/writer faults x 4 kinds x 3 outputs; HDF5-op faults for every (N<=4,k) incl. mesh/device/fixed-value writes; 16 pre-existing subsets x all update faults",
    }[tier]


def floors(tier):
    return {"distinct_nontrivial": 300, "outcomes": 6}


def _configs(nmax):
    out = []
    for N in range(nmax + 1):
        for k in sorted({1, 2, 3, N + 1}):
            for th in (0, 2):
                out.append((N, k, th))
    return out


def cost(case):
    if case.get("fam") == "mid":
        return 30 if case["screening"] else 2
    if case.get("loc") in ("h5all", "h5setup"):
        return 10
    return 1


def cases(tier, seed):
    quick = tier == "quick"
    out = []
    nmax = 3 if quick else 5
    kinds = ["exc", "kbd_off", "kbd_n", "kbd_y"]
    for N, k, th in _configs(nmax):
        nupd_th = (th + 0) if th else 0  # thermal stage: updates 0..th-1 (stop test before the update)
        L = RM.expected_labels(k, N)
        for kind in kinds:
            for output in (None, "out.h5", "sub/out.h5"):
                if quick and output == "sub/out.h5" and kind != "exc":
                    continue
                # update faults: thermal stage and main stage (the update of step N is never called,
                # but enumerate one beyond to make sure "no fault fired" is also seen)
                for f in range(nupd_th):
                    out.append(dict(N=N, k=k, th=th, kind=kind, loc="update", stage="thermal", idx=f, output=output, pre=[]))
                for f in range(N + 1):
                    out.append(dict(N=N, k=k, th=th, kind=kind, loc="update", stage="main", idx=f, output=output, pre=[]))
                for c in range(len(L)):
                    out.append(dict(N=N, k=k, th=th, kind=kind, loc="writer", stage="main", idx=c, output=output, pre=[]))
    # HDF5-op faults (the dry run inside the case counts the ops; idx beyond the count = no fault)
    if quick:
        cfg = [(N, k, 0) for N in (2, 3) for k in (1, 2)]
        okinds = ["exc", "kbd_off"]
    else:
        cfg = [(N, k, th) for N in range(0, 5) for k in sorted({1, 2, N + 1}) for th in (0, 2)]
        okinds = ["exc", "kbd_off", "kbd_n"]
    for N, k, th in cfg:
        for kind in okinds:
            for r in range(CHUNKS):
                out.append(dict(N=N, k=k, th=th, kind=kind, loc="h5all", stage="main", idx=-1, chunk=r, output="out.h5", pre=[]))
    if not quick:
        # informational only (outside the statement): faults in the set-up writes that precede step 0
        for N, k in [(2, 1), (3, 2)]:
            for kind in ("exc", "kbd_off"):
                for r in range(CHUNKS):
                    out.append(dict(N=N, k=k, th=0, kind=kind, loc="h5setup", stage="main", idx=-1, chunk=r, output="out.h5", pre=[]))
    # stop points *inside* the real update (before/after each of its documented sub-steps)
    for scr in (False, True):
        for kind in ("kbd_off", "exc"):
            for k, f in ([(4, 5), (3, 1)] if quick else [(4, 5), (3, 1), (2, 3), (5, 5), (1, 2)]):
                for r in range(MID_CHUNKS):
                    out.append(dict(fam="mid", screening=scr, kind=kind, k=k, f=f, chunk=r, N=7))
    # pre-existing files
    for r in range(0, len(PRE) + 1):
        for sub in itertools.combinations(PRE, r):
            if not sub:
                continue
            out.append(dict(N=3, k=2, th=0, kind="none", loc="none", stage="main", idx=0, output="out.h5", pre=list(sub)))
            flist = [1] if quick else [0, 1, 2, 3]
            for f in flist:
                for kind in ("exc", "kbd_off"):
                    out.append(dict(N=3, k=2, th=0, kind=kind, loc="update", stage="main", idx=f, output="out.h5", pre=list(sub)))
    return out


# ---------------------------------------------------------------------------------------------
class _Fault:
    def __init__(self, kind):
        from ..env import InjectedFault

        self.kind = kind
        self.exc = InjectedFault("injected") if kind == "exc" else KeyboardInterrupt()
        self.fired = False

    def fire(self):
        self.fired = True
        raise self.exc


def _run_once(case, loc, idx, dry=False):
    """Execute one faulted run in the current (sandbox) directory. Returns observation dict."""
    import tdgl
    from tdgl.solver import runner as runner_mod

    from .. import drivers, env

    N, k, th, kind = case["N"], case["k"], case["th"], case["kind"]
    fault = _Fault(kind)
    pre = {}
    for name in case["pre"]:
        with open(name, "wb") as fh:
            fh.write(b"stale-" + name.encode())
        os.utime(name, (1_000_000_000, 1_000_000_000))
        pre[name] = env.fs_snapshot(".")[os.path.normpath(name)]
    tmp_before = env.tmp_listing()
    opts = tdgl.SolverOptions(
        solve_time=N * DT0,
        skip_time=th * DT0,
        dt_init=DT0,
        dt_max=1.0,
        save_every=k,
        output_file=case["output"],
        pause_on_interrupt=(kind in ("kbd_n", "kbd_y")),
        progress_interval=10**9,
    )
    seen = []

    def hook(stage, j, state, rs):
        seen.append((stage, int(state["step"]) % k, int(rs.step)))
        if not dry and loc == "update" and stage == case["stage"] and j == idx and not fault.fired:
            fault.fire()

    dev = drivers.tiny(2)
    solver = drivers.make_scripted_solver(dev, opts, [], DT0, hook=hook)

    # writer-call faults and HDF5-op window
    orig_save = runner_mod.DataHandler.save_time_step
    calls = {"n": 0}
    h5 = env.H5Faults()
    opcount = {"per_call": []}

    def save_wrapper(self, state, data, running_state):
        c = calls["n"]
        calls["n"] += 1
        if not dry and loc == "writer" and c == idx and not fault.fired:
            fault.fire()
        if loc in ("h5", "h5all"):
            before = h5.count
            with h5.window():
                try:
                    return orig_save(self, state, data, running_state)
                finally:
                    opcount["per_call"].append(h5.count - before)
        return orig_save(self, state, data, running_state)

    runner_mod.DataHandler.save_time_step = save_wrapper
    if loc in ("h5", "h5all", "h5setup"):
        h5.install()
        if not dry:
            h5.arm(idx, fault.exc)
    answers = {"kbd_n": ["n"] * 3, "kbd_y": ["y"] * 3}.get(kind, [])
    sol, exc = None, None
    try:
        with env.scripted_input(answers) as prompts:
            if loc == "h5setup":
                with h5.window():
                    # only the set-up writes (mesh, device, fixed values, handler entry) are counted:
                    # the window is closed by the first writer call
                    def save_close_window(self, state, data, running_state, _o=orig_save):
                        h5.active = False
                        return _o(self, state, data, running_state)

                    runner_mod.DataHandler.save_time_step = save_close_window
                    try:
                        sol = solver.solve()
                    except BaseException as e:  # noqa: BLE001
                        exc = e
            else:
                try:
                    sol = solver.solve()
                except BaseException as e:  # noqa: BLE001
                    exc = e
    finally:
        runner_mod.DataHandler.save_time_step = orig_save
        h5.uninstall()
    fired = fault.fired or h5.fired
    exc_type = type(exc).__name__ if exc is not None else None
    exc_is_injected = exc is fault.exc
    tb_note = None
    if exc is not None and not exc_is_injected:
        import traceback

        tb_note = "".join(traceback.format_exception(type(exc), exc, exc.__traceback__))[-1500:]
    exc = None  # drop the traceback (it pins frames holding h5py objects)
    open_now = env.open_h5_files()
    open_names = env.open_h5_file_names() if open_now else []
    gc.collect()
    open_after_gc = env.open_h5_files()
    return dict(
        sol=sol,
        exc_type=exc_type,
        exc_is_injected=exc_is_injected,
        tb=tb_note,
        fired=fired,
        seen=seen,
        writer_calls=calls["n"],
        h5_ops=h5.count,
        h5_log=list(h5.log),
        ops_per_call=opcount["per_call"],
        open_now=open_now,
        open_names=open_names,
        open_after_gc=open_after_gc,
        pre=pre,
        tmp_new=sorted(env.tmp_listing() - tmp_before),
        prompts=len(prompts),
    )


def _frame_complete(fr, probes=2):
    a = fr["attrs"]
    for key in ("step", "time", "dt", "timestamp"):
        if key not in a:
            return f"missing attr {key}"
    for d in DATASETS:
        if d not in fr["data"]:
            return f"missing dataset {d}"
    if int(a["step"]) > 0:
        if fr["records"] is None:
            return "missing running_state"
        for c in ("dt", "mu", "theta"):
            if c not in fr["records"]:
                return f"missing record column {c}"
    return None


def _check(case, loc, idx, obs, res):
    from .. import drivers, env

    N, k, th, kind = case["N"], case["k"], case["th"], case["kind"]
    sig = dict(fault=kind, loc=loc if loc != "h5all" else "h5", stage=case["stage"], output_kind={None: "none"}.get(case["output"], "path"))
    fired = obs["fired"]
    L = RM.expected_labels(k, N)

    def V(kindname, **kw):
        detail = kw.pop("detail", {})
        detail = dict(detail, case=case, fault_index=idx)
        if loc == "h5setup":
            # a stop during the set-up writes (before step 0) is outside the statement, which quantifies over stops injected into
            # the update or the frame writer at steps 0..N: what happens there is recorded as an observation, not as a violation
            res.count("setup_fault_observations")
            note = f"set-up fault (HDF5 write #{idx}, before step 0): {kindname}"
            if note not in res.info:
                res.info.append(note)
            return
        res.violate(kindname, **dict(sig, **kw), detail=detail)

    # ---- handles -------------------------------------------------------------------------
    if obs["open_now"]:
        V("file-left-open", closed_by_gc=(obs["open_after_gc"] == 0), detail={"open": obs["open_names"]})
    # ---- temp dir / temp files -------------------------------------------------------------
    leaked = list(obs["tmp_new"])
    if leaked:
        V("tempdir-left-behind", detail={"entries": leaked[:5]})
    snap = env.fs_snapshot(".")
    for name, meta in obs["pre"].items():
        if snap.get(os.path.normpath(name)) != meta:
            V("preexisting-file-modified", file=name, detail={"before": meta, "after": snap.get(os.path.normpath(name))})
        elif os.stat(name).st_mtime != 1_000_000_000:
            V("preexisting-file-touched", file=name)
    new_files = sorted(p for p in snap if not p.endswith("/") and p not in {os.path.normpath(n) for n in obs["pre"]})
    tmpfiles = [p for p in new_files if p.endswith(".tmp")]
    if tmpfiles:
        V("tmp-file-left-behind", detail={"files": tmpfiles})
    outs = [p for p in new_files if not p.endswith(".tmp")]
    if case["output"] is None:
        if outs:
            V("unexpected-file", detail={"files": outs})
        out_path = None
    else:
        if len(outs) != 1:
            V("stray-or-missing-output", n_new_files=len(outs), pre=",".join(sorted(case["pre"])), detail={"files": outs})
        out_path = outs[0] if outs else None
        if len(outs) > 1:
            # the one that holds data is the output; the others are strays
            sized = sorted(outs, key=lambda p: snap[p][0])
            out_path = sized[-1]

    # ---- what the run returned -------------------------------------------------------------
    sol = obs["sol"]
    stage = case["stage"]
    stopped = fired and kind in ("exc", "kbd_off", "kbd_n")
    resumed = fired and kind == "kbd_y"
    propagated_interrupt = False
    # a cancellation that lands while the very first frame is being written has nothing to return
    idx_call0 = (loc == "writer" and idx == 0) or (loc == "h5" and obs.get("writer_call_of_fault", 1) == 0)
    if fired and kind == "exc":
        if not obs["exc_is_injected"]:
            V("exception-not-propagated", got=obs["exc_type"], detail={"tb": obs["tb"]})
    elif fired and kind in ("kbd_off", "kbd_n"):
        if obs["exc_type"] is not None:
            if obs["exc_is_injected"] and loc == "h5setup":
                # the interrupt landed in the set-up writes, before step 0 (outside the statement): it propagates like any other
                # exception, an error stop.
                propagated_interrupt = True
                res.count("interrupt_propagated_as_exception")
            else:
                # a cancellation in the update or in the frame writer of any step - the final one included - is a cancellation:
                # nothing propagates, the frames written so far are returned (D37)
                if obs["exc_is_injected"] and loc in ("writer", "h5"):
                    propagated_interrupt = True  # judge the file as for a stop that wrote nothing more
                V("cancel-raises", got=obs["exc_type"], where=loc, detail={"tb": obs["tb"]})
        elif stage == "thermal" and loc == "update":
            if sol is not None:
                V("cancel-in-thermal-returns-solution")
        elif sol is None and not (loc in ("writer", "h5") and idx_call0):
            V("cancel-returns-none")
    elif resumed:
        # the statement is about stops; what a resumed run does afterwards is only recorded
        if obs["exc_type"] is not None:
            res.count("resumed_run_later_raised_" + obs["exc_type"])
            res.info.append(f"resume after interrupt in {loc} later raised {obs['exc_type']}")
    else:
        if obs["exc_type"] is not None:
            V("unexpected-exception", got=obs["exc_type"], detail={"tb": obs["tb"]})
        elif sol is None:
            V("no-solution-returned")
    in_final_frame = loc in ("writer", "h5") and (idx if loc == "writer" else obs.get("writer_call_of_fault", 0)) == len(L) - 1 and N % k != 0
    if kind == "kbd_n" and fired and obs["prompts"] != 1 and not propagated_interrupt and not (in_final_frame and obs["prompts"] == 0):
        # (while the final frame is written there is nothing left to resume: no question is asked)
        V("prompt-count", prompts=obs["prompts"])

    # ---- frames --------------------------------------------------------------------------
    if out_path is None and sol is not None and case["output"] is None:
        # memory-only: the solution must already hold its data (file is gone)
        frames = None
    elif out_path is not None:
        try:
            frames, top = drivers.read_frames(out_path)
        except Exception as e:  # noqa: BLE001
            V("output-unreadable", exc=type(e).__name__, detail={"msg": str(e)[:200]})
            frames = None
    else:
        frames = None

    exp = None
    alt = None
    if not fired:
        exp = L
    elif stopped and loc == "update":
        if stage == "thermal":
            exp = []
        else:
            exp = RM.expected_stopped(k, idx, "cancel" if kind != "exc" else "error")
    elif stopped and loc in ("writer", "h5", "h5all"):
        c = idx if loc == "writer" else obs.get("writer_call_of_fault", 0)
        exp = L[:c]
        if c < len(L) and ((kind != "exc" and not propagated_interrupt) or loc == "h5"):
            # a cancelled run may still complete the frame it was writing; an HDF5 fault may land
            # after the frame's own data is complete (in the tmp-file bookkeeping that follows)
            alt = L[: c + 1]
    elif stopped and loc == "h5setup":
        exp = []
    if frames is not None:
        labels = [int(fr["attrs"].get("step", -1)) for fr in frames]
        incomplete = [(fr["name"], _frame_complete(fr)) for fr in frames if _frame_complete(fr)]
        if incomplete:
            V("partial-frame", n=len(incomplete), detail={"frames": incomplete})
        if exp is not None and not incomplete:
            if labels != exp and (alt is None or labels != alt):
                V("frames-not-those-before-stop", n_obs_minus_exp=len(labels) - len(exp), detail={"expected": exp, "alt": alt, "observed": labels})
        if not incomplete and not resumed and frames:
            f0 = frames[0]
            prev = 0
            for fr, s in zip(frames, labels):
                c = float(np.real(np.asarray(fr["data"]["psi"]) - np.asarray(f0["data"]["psi"])).ravel()[0])
                if c != s:
                    V("frame-content", observed_minus_expected=int(round(c - s)), detail={"label": s})
                    break
                if abs(float(fr["attrs"]["time"]) - s * DT0) > 1e-12:
                    V("frame-time", detail={"label": s, "time": float(fr["attrs"]["time"])})
                    break
                if s > 0:
                    dt = np.atleast_1d(fr["records"]["dt"]).astype(float)
                    dt = dt[dt > 0]
                    if len(dt) != s - prev:
                        V("frame-records", len_obs_minus_exp=int(len(dt) - (s - prev)), detail={"label": s})
                        break
                    prev = s
    # ---- usable partial solution ------------------------------------------------------------
    if sol is not None and not resumed:
        try:
            n = 0
            if frames is not None:
                n = len(frames)
                st = sol.times
                if st is None or len(st) != n:
                    V("solution-times-length", detail={"times": st, "frames": n})
                for i in range(n):
                    sol.solve_step = i
                    _ = sol.tdgl_data.psi
            else:
                _ = sol.tdgl_data.psi
        except Exception as e:  # noqa: BLE001
            V("partial-solution-unusable", exc=type(e).__name__, memory_only=(case["output"] is None), detail={"msg": str(e)[:300]})
    res.states.update(f"{s}" for s in obs["seen"])
    return sig


SUBSTEPS = ("solve_for_psi_squared", "solve_for_observables", "get_induced_vector_potential")
_MIDREF = {}


def _mid_run(case, point, path, k, steps):
    """One real run (tiny device, real update). `point` = index of the stop point inside the update of
    step case['f'] (2*c = before sub-call c, 2*c+1 = after it), or None for no fault.
    Returns (n_points_seen_in_step_f, solution, exception)."""
    import tdgl

    from .. import drivers, env

    dev = drivers.tiny(2, terminals=True)
    dt = 2.0**-5
    opts = tdgl.SolverOptions(
        solve_time=steps * dt, dt_init=dt, dt_max=dt, adaptive=False, save_every=k, output_file=path,
        include_screening=case["screening"], screening_tolerance=1e-3, pause_on_interrupt=False, progress_interval=10**9,
    )
    solver = tdgl.TDGLSolver(dev, opts, applied_vector_potential=0.4, terminal_currents={"source": 2.0, "drain": -2.0})
    st = {"step": -1, "calls": 0, "fired": False}
    exc_obj = env.InjectedFault("injected") if case["kind"] == "exc" else KeyboardInterrupt()
    orig_update = solver.update

    def update(state, running_state, dt_, **kw):
        st["step"] = int(state["step"])
        if st["step"] == case["f"]:
            st["calls"] = 0
            # the per-step records are written at the end of the update: stop points before and after each of these writes too
            orig_append = running_state.append

            def append(name, value):
                c = st["calls"]
                st["calls"] += 1
                if point is not None and not st["fired"] and point == 2 * c:
                    st["fired"] = True
                    raise exc_obj
                orig_append(name, value)
                if point is not None and not st["fired"] and point == 2 * c + 1:
                    st["fired"] = True
                    st["after_record"] = True
                    raise exc_obj

            running_state.append = append
            try:
                return orig_update(state, running_state, dt_, **kw)
            finally:
                del running_state.append
        return orig_update(state, running_state, dt_, **kw)

    solver.update = update

    def wrap(name):
        orig = getattr(solver, name)

        def w(*a, **kw):
            if st["step"] == case["f"]:
                c = st["calls"]
                st["calls"] += 1
                if point is not None and not st["fired"] and point == 2 * c:
                    st["fired"] = True
                    raise exc_obj
                out = orig(*a, **kw)
                if point is not None and not st["fired"] and point == 2 * c + 1:
                    st["fired"] = True
                    raise exc_obj
                return out
            return orig(*a, **kw)

        setattr(solver, name, w)

    for nm in SUBSTEPS:
        wrap(nm)
    sol, exc = None, None
    try:
        sol = solver.solve()
    except BaseException as e:  # noqa: BLE001
        exc = e
    n_points = 2 * st["calls"] if st["step"] >= case["f"] else 0
    etype = type(exc).__name__ if exc is not None else None
    injected = exc is exc_obj
    return n_points, sol, etype, injected, (st["fired"], bool(st.get("after_record")))


def run_mid(case):
    from .. import drivers, env

    res = CaseResult()
    res.key = case_key(case)
    N, k, f = case["N"], case["k"], case["f"]
    refkey = (case["screening"], case["f"])
    if refkey not in _MIDREF:
        npts, _, _, _, _ = _mid_run(case, None, "ref.h5", 1, N)
        frames, _ = drivers.read_frames("ref.h5")
        _MIDREF[refkey] = ({int(fr["attrs"]["step"]): fr for fr in frames}, npts)
    ref, npts = _MIDREF[refkey]
    res.count("mid_points_enumerated", npts)
    res.executions = 0
    for pt in range(case["chunk"], npts, MID_CHUNKS):
        path = f"mid{pt}.h5"
        _, sol, etype, injected, (fired, after_record) = _mid_run(case, pt, path, k, N)
        res.executions += 1
        res.transitions += 1
        res.states.add(f"mid;scr={case['screening']};sub={SUBSTEPS[(pt // 2) % 3] if case['screening'] else pt // 2};after={pt % 2}")
        sig = dict(fault=case["kind"], loc=("inside-update-after-a-record-was-written" if after_record else "inside-update"), screening=case["screening"])
        if not fired:
            res.violate("mid-fault-did-not-fire", **sig)
            continue
        res.count("faults_fired")
        if case["kind"] == "exc":
            if not injected:
                res.violate("exception-not-propagated", got=etype, **sig)
            exp = RM.expected_stopped(k, f, "error")
        else:
            if etype is not None:
                res.violate("cancel-raises", got=etype, **sig)
            elif sol is None:
                res.violate("cancel-returns-none", **sig)
            exp = RM.expected_stopped(k, f, "cancel")
        if env.open_h5_files():
            res.violate("file-left-open", closed_by_gc=False, **sig)
        if any(n.endswith(".tmp") for n in os.listdir(".")):
            res.violate("tmp-file-left-behind", **sig)
        frames, _ = drivers.read_frames(path)
        labels = [int(fr["attrs"]["step"]) for fr in frames]
        if labels != exp:
            res.violate("frames-not-those-before-stop", n_obs_minus_exp=len(labels) - len(exp), **sig,
                        detail={"expected": exp, "observed": labels, "case": case, "point": pt})
            continue
        for fr, lab in zip(frames, labels):
            msg = _frame_complete(fr)
            if msg:
                res.violate("partial-frame", n=1, **sig, detail={"frame": lab, "why": msg})
                break
            bad = None
            for d in DATASETS:
                if not np.array_equal(fr["data"][d], ref[lab]["data"][d]):
                    bad = d
                    break
            if bad:
                res.violate(
                    "frame-content-untruthful", dataset=bad, final_frame=(lab == labels[-1]), **sig,
                    detail={"case": case, "point": pt, "label": lab,
                            "max_abs_diff": float(np.abs(np.asarray(fr["data"][bad]) - np.asarray(ref[lab]["data"][bad])).max())},
                )
                break
            if float(fr["attrs"]["time"]) != float(ref[lab]["attrs"]["time"]):
                res.violate("frame-time", **sig, detail={"label": lab})
                break
        # bookkeeping: one per-step record for every completed update and none for the update that was stopped
        nrec, bad_dt, cols_extra = 0, False, []
        for fr in frames:
            rec = fr["records"]
            if rec is None:
                continue
            dts = np.atleast_1d(np.asarray(rec["dt"], float)).ravel()
            valid = dts > 0
            nrec += int(valid.sum())
            bad_dt = bad_dt or bool(np.any(dts[valid] != 2.0**-5))
            for c, v in rec.items():
                v = np.asarray(v, float)
                if c == "dt" or v.size == 0:
                    continue
                v2 = v.reshape(-1, len(dts)) if v.ndim != 2 else v
                if v2.shape[-1] == len(dts) and np.any(v2[:, ~valid] != 0):
                    cols_extra.append(c)
        if labels and (nrec != labels[-1] or bad_dt or cols_extra):
            res.violate("records-do-not-match-completed-steps", n_obs_minus_exp=nrec - labels[-1], **sig,
                        detail={"case": case, "point": pt, "records": nrec, "completed": labels[-1], "columns_with_entries_beyond_dt": cols_extra})
        if sol is not None:
            try:
                nd = len(np.atleast_1d(sol.dynamics.dt)) if sol.dynamics is not None else 0
                if labels and nd != labels[-1]:
                    res.violate("partial-solution-records-do-not-match-completed-steps", n_obs_minus_exp=nd - labels[-1], **sig, detail={"case": case, "point": pt})
                tlast = float(np.atleast_1d(sol.times)[-1])
                if labels and abs(tlast - float(frames[-1]["attrs"]["time"])) > 1e-12:
                    res.violate("partial-solution-times-overshoot", **sig, detail={"case": case, "point": pt, "last_time": tlast, "frame_time": float(frames[-1]["attrs"]["time"])})
            except Exception as e:  # noqa: BLE001
                res.violate("partial-solution-unusable", exc=type(e).__name__, memory_only=False, where="records", **sig)
        if sol is not None:
            try:
                lab = labels[-1]
                if not np.array_equal(sol.tdgl_data.induced_vector_potential, ref[lab]["data"]["induced_vector_potential"]) or not np.array_equal(
                    sol.tdgl_data.psi, ref[lab]["data"]["psi"]
                ):
                    res.violate("partial-solution-untruthful", **sig, detail={"case": case, "point": pt})
            except Exception as e:  # noqa: BLE001
                res.violate("partial-solution-unusable", exc=type(e).__name__, memory_only=False, **sig)
        os.remove(path)
    res.nontrivial = res.executions > 0
    res.outcome = f"mid;{case['kind']};scr={case['screening']}"
    return res


def run_case(case):
    if case.get("fam") == "mid":
        return run_mid(case)
    res = CaseResult()
    res.key = case_key(case)
    loc = case["loc"]
    if loc in ("h5all", "h5setup"):
        # dry run counts the HDF5 write operations; then every one of them is taken as a fault point
        sandbox = os.getcwd()
        d = tempfile.mkdtemp(prefix="dry-", dir=os.path.dirname(sandbox))
        os.chdir(d)
        try:
            dry = _run_once(case, "h5" if loc == "h5all" else "h5setup", -1, dry=True)
        finally:
            os.chdir(sandbox)
        nops = dry["h5_ops"]
        res.count("h5_ops_enumerated", nops)
        per_call = dry["ops_per_call"]
        res.executions = 0
        for j in range(case.get("chunk", 0), nops, CHUNKS):
            d = tempfile.mkdtemp(prefix=f"f{j}-", dir=os.path.dirname(sandbox))
            os.chdir(d)
            try:
                obs = _run_once(case, "h5" if loc == "h5all" else "h5setup", j)
                # which writer call does op j belong to?
                acc, c = 0, 0
                for c, n in enumerate(per_call):
                    if j < acc + n:
                        break
                    acc += n
                obs["writer_call_of_fault"] = c
                _check(case, "h5" if loc == "h5all" else "h5setup", j, obs, res)
                res.transitions += 1
                res.executions += 1
                if obs["fired"]:
                    res.count("faults_fired")
            finally:
                os.chdir(sandbox)
        res.nontrivial = nops > 0
        res.outcome = f"h5ops;{case['kind']}"
        return res
    obs = _run_once(case, loc, case["idx"])
    _check(case, loc, case["idx"], obs, res)
    res.transitions = 1
    if obs["fired"]:
        res.count("faults_fired")
    res.nontrivial = bool(obs["fired"] or case["pre"])
    res.outcome = f"{case['kind']};{loc};{case['stage']};fired={obs['fired']};ret={'sol' if obs['sol'] is not None else obs['exc_type']}"
    return res
