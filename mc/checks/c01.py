"""C01 - charge is conserved in every cell at every recorded step.

State invariant evaluated on every recorded frame of every run of a finite product of
configurations.  The oracle recomputes, from the raw mesh arrays stored in the output file and an
independent SI unit model, the net current leaving each Voronoi cell and the current injected
through the cell's share of each terminal.  A second family enumerates balanced current
assignments and requires that they are accepted.
"""
from __future__ import annotations

import itertools
from fractions import Fraction

import numpy as np

from ..core import CaseResult, case_key
from ..ref.physics import RawMesh, Units

ID = "C01"
LEVEL = "model_checking"
RULE = (
    "run family: union of full products over (device with 2..4 terminals, balanced current assignment incl. non-representable decimals "
    "and time-dependent callables, field {0, static, ramp}, adaptive, save interval) + screening, unit-system and seeded sub-products; every recorded frame "
    "is a state on which the per-cell continuity invariant is evaluated. accept family: every balanced n-tuple over {-3..3} (and its tenths / thirds) per device. "
    "Non-trivial = the frame carries non-zero current / the tuple has >= 2 non-zero entries."
)
STATE_DEF = "recorded frames (device, configuration, step label) on which the invariant was evaluated; transitions = solver updates executed"
ASSUMPTIONS = [
    "terminal membership of boundary edges and terminal lengths are recomputed with shapely from the terminal polygons (edge centres within 1e-7 of a terminal outline would be ambiguous: none in the zoo, enforced)",
    "SI unit model: K_u = Phi0/(2 pi mu0 Lambda xi) is the unit of the stored edge currents (scipy.constants)",
    "frame s was produced by update s-1 whose boundary condition was evaluated at t_{s-1} = t_s - dt_{s-1}",
]
TOLERANCES = {"cell": 1e-9}


def bound(tier):
    return {
        "quick": "3 devices (2,3,4 terminals) x 5 current assignments x 3 fields x adaptive {off,on} x k {1,3}, 8 steps; + screening (2), units (8), seeded (4) sub-products; accept: all balanced tuples over {-3..3} x scales {1, 0.1}",
        "thorough": "7 devices x 2 densities x 6 assignments x 3 fields x adaptive x k {1,2,3}; screening x 12; 3 unit systems x 3 devices x 3 assignments; seeded x 6; accept: scales {1, 0.1, 1/3, 1e-3}",
    }[tier]


def floors(tier):
    return {"distinct_nontrivial": 100, "states": 300, "count:frames_with_current": 300, "count:accepted": 50}


TERMS = {"G1d": ["source", "drain"], "G1": ["source", "drain"], "G2": ["source", "drain"], "G3": ["left", "right", "stem"], "G4": ["w", "e", "n", "s"],
         "G6": ["a", "b"], "G7": ["source", "drain"]}

CURRENTS = {
    2: [[1, -1], [3, -3], [0.1, -0.1], [0.7, -0.7], "ramp", "sin", "switch", "switch_sparse"],
    3: [[1, 2, -3], [0.1, 0.2, -0.3], [0, 2, -2], [0.7, 0.1, -0.8], "ramp", "sin", "switch", "switch_sparse", [2, -2, 0]],
    4: [[1, 2, -3, 0], [0.1, 0.2, 0.3, -0.6], [1, 1, 1, -3], [0.3, 0.3, 0.3, -0.9], "ramp", "sin", "switch", "switch_sparse"],
}


def cases(tier, seed):
    out = []
    quick = tier == "quick"
    devs = [("G1", "coarse"), ("G3", "coarse"), ("G4", "coarse")]
    if not quick:
        devs += [("G2", "coarse"), ("G6", "coarse"), ("G7", "coarse"), ("G1", "fine"), ("G3", "fine"), ("G4", "fine"), ("G2", "fine")]
    ks = (1, 3) if quick else (1, 2, 3)
    for (d, dens) in devs:
        n = len(TERMS[d])
        cur = CURRENTS[n][:8]
        if quick:
            cur = [cur[0], cur[1], cur[3], cur[4], cur[5], cur[6], cur[7]] if n == 2 else [cur[0], cur[1], cur[2], cur[4], cur[5], cur[6], cur[7]]
        for ci, field, adaptive, k in itertools.product(range(len(cur)), ("zero", "static", "ramp"), (False, True), ks):
            out.append(dict(fam="run", dev=d, dens=dens, cur=cur[ci], field=field, adaptive=adaptive, k=k, screening=False,
                            units="um", seeded=False))
    # terminals that reach deep into the film (they contain interior sites and the centres of interior edges)
    for c, field, adaptive in itertools.product(CURRENTS[2][:2], ("static", "ramp"), (False, True)):
        for dens in ("coarse",) if quick else ("coarse", "fine"):
            out.append(dict(fam="run", dev="G1d", dens=dens, cur=c, field=field, adaptive=adaptive, k=2, screening=False, units="um", seeded=False))
    # screening
    for d, c in ([("G1", [1, -1]), ("G3", [0.1, 0.2, -0.3])] if quick else
                 [(d, c) for d in ("G1", "G3", "G4") for c in CURRENTS[len(TERMS[d])][:4]]):
        out.append(dict(fam="run", dev=d, dens="coarse", cur=c, field="static", adaptive=False, k=2, screening=True, units="um", seeded=False))
    # units
    for d in ("G1", "G3") if quick else ("G1", "G3", "G4"):
        for u in ("nm", "mm"):
            for c in CURRENTS[len(TERMS[d])][:2] + (["ramp"] if not quick else []):
                out.append(dict(fam="run", dev=d, dens="coarse", cur=c, field="static", adaptive=False, k=2, screening=False, units=u, seeded=False))
    for d in ("G1", "G3"):
        for u in ("nm_uA", "um_nA", "mm_uA"):
            for c in (CURRENTS[len(TERMS[d])][1], "ramp"):
                out.append(dict(fam="run", dev=d, dens="coarse", cur=c, field="static", adaptive=False, k=2, screening=(u == "nm_uA" and not isinstance(c, str)), units=u, seeded=False))
    # non-initial starts
    for d in ("G1", "G3") if quick else ("G1", "G3", "G4"):
        for c in CURRENTS[len(TERMS[d])][:2]:
            out.append(dict(fam="run", dev=d, dens="coarse", cur=c, field="static", adaptive=False, k=3, screening=False, units="um", seeded=True))
    # histories: the checked run is not the first use of the device / mesh object
    for d in ("G1", "G3", "G4") if quick else ("G1", "G3", "G4", "G2"):
        cur = CURRENTS[len(TERMS[d])]
        for prior in ("other_currents_first", "other_solver_alive", "unbiased_first", "solved_then_remeshed"):
            for c in (cur[1], cur[6]):
                out.append(dict(fam="run", dev=d, dens="coarse", cur=c, field="static", adaptive=False, k=2, screening=False, units="um", seeded=False,
                                prior=prior))
    # magnitudes: the same assignments nine decades smaller and three decades larger (zero field, so that the injected current is the only scale)
    for d in ("G1", "G3", "G4"):
        cur = CURRENTS[len(TERMS[d])]
        for c, sc in itertools.product((cur[0], cur[1], cur[6]), (1e-9, 1e3) if not quick else (1e-9,)):
            out.append(dict(fam="run", dev=d, dens="coarse", cur=c, field="zero", adaptive=False, k=2, screening=False, units="um", seeded=False, cur_scale=sc))
    # a callable that updates one dict in place and returns the same object every time
    for d, field, thermal in itertools.product(("G1", "G3", "G4"), ("static", "ramp"), (False, True)):
        out.append(dict(fam="run", dev=d, dens="coarse", cur="ramp_inplace", field=field, adaptive=False, k=2, screening=False, units="um", seeded=False, **({"thermal": True} if thermal else {})))
    # constant dicts that omit an idle terminal
    out.append(dict(fam="run", dev="G3", dens="coarse", cur=[2, -2, 0], field="static", adaptive=False, k=2, screening=False, units="um", seeded=False, omit_idle=True))
    out.append(dict(fam="run", dev="G4", dens="coarse", cur=[1, 2, -3, 0], field="static", adaptive=False, k=2, screening=False, units="um", seeded=False, omit_idle=True))
    # thermalisation: the recorded stage starts from a thermalised state, with step counter and clock restarted at 0
    for d in ("G1", "G3", "G4"):
        cur = CURRENTS[len(TERMS[d])]
        for c, field in itertools.product((cur[1], "ramp", "switch_sparse") if quick else (cur[1], cur[6], "ramp", "switch", "switch_sparse"), ("static", "ramp")):
            out.append(dict(fam="run", dev=d, dens="coarse", cur=c, field=field, adaptive=False, k=2, screening=False, units="um", seeded=False, thermal=True))
    # acceptance
    scales = ["1", "0.1"] if quick else ["1", "0.1", "1/3", "0.001"]
    for d in ("G1", "G3", "G4"):
        for sc in scales:
            out.append(dict(fam="accept", dev=d, scale=sc))
    return out


# ---------------------------------------------------------------------------------------------
UNIT_SETS = {"um": ("um", "mT", "uA"), "nm": ("nm", "uT", "nA"), "mm": ("mm", "T", "mA"),
             # mismatched prefixes (current_units / length_units is not 1 A/m)
             "nm_uA": ("nm", "uT", "uA"), "um_nA": ("um", "mT", "nA"), "mm_uA": ("mm", "T", "uA")}
# the same physical quantities in the three systems: multiply the um/mT/uA numbers by these
FIELD_SCALE = {"um": 1.0, "nm": 1e3, "mm": 1e-3, "nm_uA": 1e3, "um_nA": 1.0, "mm_uA": 1e-3}
CURR_SCALE = {"um": 1.0, "nm": 1e3, "mm": 1e-3, "nm_uA": 1.0, "um_nA": 1e3, "mm_uA": 1.0}


SWITCH_PHASE = 2 * 2.0**-6  # two fixed steps per phase


def switch_pairs(n):
    """ordered pairs (i, j) such that consecutive pairs share exactly one terminal in the same role"""
    if n == 2:
        return [(0, 1), (1, 0)]
    out = []
    for i in range(n):
        others = [j for j in range(n) if j != i]
        if i % 2:
            others = others[::-1]
        out += [(i, j) for j in others]  # terminal i keeps its current while the partner switches
    return out


def current_func(spec, names, base_scale=1.0, omit_idle=False):
    """returns (argument for tdgl.solve, python function t -> dict) for a current spec"""
    n = len(names)
    base = {2: [2.0, -2.0], 3: [1.0, 2.0, -3.0], 4: [1.0, 2.0, -3.5, 0.5]}[n]
    if spec == "ramp":
        def f(t):
            return {nm: base_scale * b * (0.5 + t) for nm, b in zip(names, base)}
        return f, f
    if spec == "ramp_inplace":
        # the callable keeps ONE dict, updates it in place and hands the same object back at every call
        store = {}

        def g(t):
            for nm, b in zip(names, base):
                store[nm] = base_scale * b * (0.5 + t)
            return store

        def f(t):
            return {nm: base_scale * b * (0.5 + t) for nm, b in zip(names, base)}
        return g, f
    if spec == "sin":
        def f(t):
            return {nm: base_scale * b * np.sin(3 * t + 0.4) for nm, b in zip(names, base)}
        return f, f
    if spec in ("switch", "switch_sparse"):
        # piecewise constant: the current flows between one ordered pair of terminals per phase, and
        # consecutive phases share one terminal whose current does not change while the others switch.
        # "switch_sparse": the callable only mentions the active terminals (omitted terminals carry no current),
        # with an idle phase {} in between for two terminals
        pairs = switch_pairs(n)
        if spec == "switch_sparse" and n == 2:
            pairs = [(0, 1), None, (1, 0), None]

        def full(t):
            ph = int(t / SWITCH_PHASE) % len(pairs)
            d = {nm: 0.0 for nm in names}
            if pairs[ph] is not None:
                i, j = pairs[ph]
                d[names[i]] = base_scale * 1.5
                d[names[j]] = -base_scale * 1.5
            return d

        if spec == "switch":
            return full, full

        def sparse(t):
            return {k: v for k, v in full(t).items() if v != 0.0}
        return sparse, full
    d = {nm: base_scale * v for nm, v in zip(names, spec)}
    if omit_idle:
        # a constant dict that does not mention the idle terminal at all (an omitted terminal carries no current)
        arg = {nm: v for nm, v in d.items() if v != 0}
        return arg, (lambda t: d)
    return d, (lambda t: d)


def terminal_geometry(dev, rm, xi):
    """Independent terminal membership: {name: (boundary edge positions (index into rm.bidx), length in user units)}"""
    from shapely.geometry import Point, Polygon as SPoly

    out = {}
    centers = rm.centers[rm.bidx] * xi
    lengths = rm.e[rm.bidx] * xi
    ambiguous = 0
    for term in dev.terminals:
        poly = SPoly(np.asarray(term.points))
        inside = []
        for q, c in enumerate(centers):
            p = Point(c)
            if poly.exterior.distance(p) < 1e-7 * max(1.0, xi):
                ambiguous += 1
            if poly.contains(p):
                inside.append(q)
        inside = np.array(inside, int)
        out[term.name] = (inside, float(lengths[inside].sum()))
    return out, ambiguous


def run_run(case):
    import h5py
    import tdgl
    from tdgl.sources import ConstantField, LinearRamp

    from .. import drivers, zoo

    res = CaseResult()
    res.key = case_key(case)
    lu, fu, cu = UNIT_SETS[case["units"]]
    prior = case.get("prior")
    dev = zoo.device(case["dev"], density=case["dens"], units=lu, memo=(prior is None))
    names = TERMS[case["dev"]]
    cs = 0.25 * CURR_SCALE[case["units"]] * case.get("cur_scale", 1.0)  # the invariant is linear in the currents: keep the drive gentle
    arg, func = current_func(case["cur"], names, cs, omit_idle=bool(case.get("omit_idle")))
    fs = FIELD_SCALE[case["units"]]
    if case["field"] == "zero":
        A = 0.0
    elif case["field"] == "static":
        A = 0.3 * fs
    else:
        A = LinearRamp(tmin=0.0, tmax=0.4, initial=0.1, final=1.0) * ConstantField(0.5 * fs, field_units=fu, length_units=lu)
    dt = 2.0**-6
    nsteps = 8 if case["cur"] not in ("switch", "switch_sparse") else 2 * max(4, len(switch_pairs(len(names)))) + 2
    opts = tdgl.SolverOptions(
        solve_time=nsteps * dt, dt_init=dt, dt_max=(2 * dt if case["adaptive"] else dt), adaptive=case["adaptive"], adaptive_window=2,
        save_every=case["k"], output_file="out.h5", field_units=fu, current_units=cu, include_screening=case["screening"],
        screening_tolerance=1e-2, progress_interval=10**9, skip_time=(3 * dt if case.get("thermal") else 0.0),
    )
    alive = None
    if prior:
        # something else happened to this device object first
        other = {n: 0.0 for n in names}
        other[names[-1]], other[names[0]] = 0.4 * cs, -0.4 * cs
        po = tdgl.SolverOptions(solve_time=3 * dt, dt_init=dt, dt_max=dt, adaptive=False, save_every=3, output_file="prior.h5",
                                field_units=fu, current_units=cu, progress_interval=10**9)
        if prior == "solved_then_remeshed":
            # the device was solved on a coarser mesh first and then meshed again (same object, new mesh)
            dev.make_mesh(max_edge_length=1.3 * dev.layer.coherence_length, smooth=0)
            tdgl.solve(dev, po, applied_vector_potential=0.1 * fs, terminal_currents=other)
            dev.make_mesh(max_edge_length=0.62 * dev.layer.coherence_length, smooth=0)
        elif prior == "other_currents_first":
            tdgl.solve(dev, po, applied_vector_potential=0.1 * fs, terminal_currents=other)
        elif prior == "unbiased_first":
            tdgl.solve(dev, po, applied_vector_potential=0.1 * fs, terminal_currents=None)
        else:
            alive = tdgl.TDGLSolver(dev, po, applied_vector_potential=0.1 * fs, terminal_currents=other)  # constructed and kept alive
    seed = None
    if case["seeded"]:
        o2 = tdgl.SolverOptions(solve_time=5 * dt, dt_init=dt, dt_max=dt, adaptive=False, save_every=5, output_file="seed.h5",
                                field_units=fu, current_units=cu, progress_interval=10**9)
        try:
            seed = tdgl.solve(dev, o2, applied_vector_potential=A, terminal_currents=arg)
        except ValueError as exc:
            if "terminal currents" not in str(exc):
                raise
            res.violate("balanced-currents-rejected", n_terminals=len(names), representable=None, detail={"case": case, "msg": str(exc)})
            return res
    try:
        tdgl.solve(dev, opts, applied_vector_potential=A, terminal_currents=arg, seed_solution=seed)
    except RuntimeError as exc:
        if "converge" not in str(exc):
            raise
        res.count("solver_refused")  # documented failure of the step solver; frames before it are still checked
    except ValueError as exc:
        if "terminal currents" in str(exc):
            res.violate("balanced-currents-rejected", n_terminals=len(names),
                        representable=all(float(v).is_integer() for v in case["cur"]) if isinstance(case["cur"], list) else None,
                        detail={"case": case, "msg": str(exc)})
            res.nontrivial = True
            res.outcome = "rejected"
            return res
        raise
    layer = dev.layer
    U = Units(layer.coherence_length, layer.london_lambda, layer.thickness, lu, fu, cu)
    xi_user = layer.coherence_length
    rm = drivers.read_raw_mesh("out.h5")
    tg, ambiguous = terminal_geometry(dev, rm, xi_user)
    if ambiguous:
        raise AssertionError("ambiguous terminal membership in fixture")
    frames, _ = drivers.read_frames("out.h5")
    scale_ref = max(1e-30, max(abs(U.terminal_flux(v, tg[nm][1])) for t in (0.0, 0.1, 0.2) for nm, v in func(t).items()))
    for fr in frames:
        s = int(fr["attrs"]["step"])
        F = np.asarray(fr["data"]["supercurrent"]) + np.asarray(fr["data"]["normal_current"])
        out_i = rm.outflow(F)
        if s == 0:
            if case["seeded"]:
                tprev = 5 * dt - dt  # the seed run's last update
            elif case.get("thermal"):
                tprev = 2 * dt  # the last update of the thermalisation stage (fixed steps at t = 0, dt, 2 dt)
            else:
                tprev = None
        else:
            dts = np.atleast_1d(fr["records"]["dt"]).astype(float)
            dts = dts[dts > 0]
            tprev = float(fr["attrs"]["time"]) - float(dts[-1])
        flux = np.zeros(len(rm.bidx))
        if tprev is not None or s == 0:
            cur_t = func(tprev if tprev is not None else 0.0)
            for nm, (idx, L) in tg.items():
                flux[idx] = U.terminal_flux(cur_t[nm], L)
        inj = rm.boundary_injection(flux)
        err = np.abs(out_i - inj)
        scale = max(np.abs(F).max() * rm.s.max(), np.abs(inj).max(), scale_ref * rm.e.max())
        rel = float(err.max() / scale)
        res.states.add(f"{case['dev']}/{res.key}/{s}")
        if np.abs(F).max() > 0:
            res.count("frames_with_current")
        if s == 0 and not case["seeded"] and not case.get("thermal"):
            if rel > TOLERANCES["cell"]:
                res.violate("frame0-placeholder-currents", seeded=False, all_zero_currents=bool(np.abs(F).max() == 0),
                            detail={"case": case, "rel": rel})
            continue
        res.residual("cell", rel)
        if rel > TOLERANCES["cell"]:
            worst = int(np.argmax(err))
            on_term = bool(inj[worst] != 0)
            res.violate(
                "cell-continuity", where=("terminal-cell" if on_term else "other-cell"), field=case["field"], screening=case["screening"],
                units=case["units"], time_dependent_current=isinstance(case["cur"], str), seeded_frame0=(s == 0),
                detail={"case": case, "label": s, "rel": rel, "cell": worst, "out": float(out_i[worst]), "inj": float(inj[worst])},
            )
            break
        # terminal totals: net current entering through each terminal = requested current
        for nm, (idx, L) in tg.items():
            cells = np.unique(rm.edges[rm.bidx[idx]].ravel())
            # (informational: cells may be shared with non-terminal edges, so the per-cell test above is the deciding one)
        res.transitions = max(res.transitions, s)
    res.nontrivial = True
    res.outcome = f"run;field={case['field']};scr={case['screening']};units={case['units']}"
    return res


def run_accept(case):
    import tdgl

    from .. import zoo

    res = CaseResult()
    res.key = case_key(case)
    dev = zoo.device(case["dev"])
    names = TERMS[case["dev"]]
    n = len(names)
    sc = Fraction(case["scale"])
    opts = tdgl.SolverOptions(solve_time=1.0, output_file=None, progress_interval=10**9)
    res.executions = 0
    for tup in itertools.product(range(-3, 4), repeat=n):
        if sum(tup) != 0 or sum(1 for v in tup if v) < 2:
            continue
        vals = [float(Fraction(v) * sc) for v in tup]
        # = the correctly rounded double of the decimal / fraction the user typed (0.3, not 3*0.1)
        res.executions += 1
        res.transitions += 1
        res.states.add(f"{case['dev']}/{case['scale']}/{tup}")
        try:
            tdgl.TDGLSolver(dev, opts, terminal_currents=dict(zip(names, vals)))
            res.count("accepted")
        except ValueError as exc:
            if "terminal currents" not in str(exc):
                raise
            res.violate("balanced-currents-rejected", n_terminals=n, representable=(case["scale"] == "1"),
                        detail={"device": case["dev"], "currents": dict(zip(names, vals)), "msg": str(exc)})
    res.nontrivial = True
    res.outcome = f"accept;n={n}"
    return res


def run_case(case):
    return run_run(case) if case["fam"] == "run" else run_accept(case)
