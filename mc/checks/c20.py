"""C20 - fields and potentials computed from currents are linear and correct.

bs2d   : tdgl.em.biot_savart_2d on basis currents (unit sheet current at one site in x or y: a basis, the maps
         are linear) x evaluation-point shapes x unit systems x scalar/vector form, against direct Biot-Savart sums
         in SI (extended precision).
sol    : Solution.field_at_position / vector_potential_at_position on a real solution whose site currents are
         replaced by basis and superposed currents: SI sums, scalar = z component of vector, additivity, sum = parts.
loop   : closed-form vector potential of a current loop against numerical quadrature of the line integral.
convert: H <-> B conversions round trip for unit pairs x input forms x registry given / not given.
"""
from __future__ import annotations

import itertools

import numpy as np

from ..core import CaseResult, case_key
from ..ref.physics import CURR, LEN, MU0

ID = "C20"
LEVEL = "exploration"
RULE = (
    "bs2d: every site of the mesh x {x,y} unit current (basis) + 3 superpositions x 8 evaluation-point shapes x 3 length units x 3 current units x {scalar, vector}; "
    "sol: 2 devices x basis subsets x point shapes x field units x vector x return_sum x with_units; loop: radii {0.5,1,3} x 3 centres x 12 positions incl. axis, in-plane, far field; "
    "convert: 4 unit pairs x 3 input forms x registry {given, None}. Non-trivial = non-zero current and a point off the film plane; distinct = case parameters."
)
ASSUMPTIONS = [
    "SI reference: B = mu0/4pi sum_j a_j K_j x d / |d|^3, A = mu0/4pi sum_j a_j K_j / |d| (scipy.constants), numpy longdouble",
    "the maps are linear in the currents, so a basis decides every distribution (three superpositions are checked as well)",
    "loop positions closer than 1e-2 R to the axis (other than the axis itself) are outside the alphabet: the closed form loses digits like 1/m there",
]
TOLERANCES = {"si": 1e-9, "form": 1e-12, "loop": 1e-8, "convert": 1e-12}
FU = {"mT": 1e-3, "uT": 1e-6, "T": 1.0}


def bound(tier):
    return {
        "quick": "bs2d: all sites of one 50-site mesh x 2 directions x 8 point shapes x 9 unit pairs x 2 forms; sol: 2 devices; loop: 108 positions; convert: 24 cases; maps of 1000 / 33331 / 80003 positions, every row",
        "thorough": "bs2d: 3 meshes; sol: 4 devices x all option combinations; loop: 324 positions; convert: 48 cases; maps of up to 262147 positions, every row",
    }[tier]


def floors(tier):
    return {"distinct_nontrivial": 20, "count:basis_currents": 100, "count:comparisons": 2000}


POINTSETS = ["one_list", "one_array", "two", "five", "m2_scalar_z", "m2_array_z", "below", "far", "int_xy_scalar_z", "int_one", "int_all"]


def cases(tier, seed):
    out = []
    meshes = ["tiny"] if tier == "quick" else ["tiny", "G1", "G5"]
    for m, lu, cu in itertools.product(meshes, LEN.keys() - {"m"}, CURR.keys() - {"A"}):
        out.append(dict(fam="bs2d", mesh=m, lu=lu, cu=cu))
    for d in ("tinyT", "G5") if tier == "quick" else ("tinyT", "G5", "G1", "G2"):
        for fu in FU:
            out.append(dict(fam="sol", dev=d, fu=fu))
    # the same device stated in other length / current units
    for d, fu in (("G5nm", "uT"), ("G5mm", "T")):
        out.append(dict(fam="sol", dev=d, fu=fu))
    for R, cx in itertools.product((0.5, 1.0, 3.0), range(3)):
        out.append(dict(fam="loop", R=R, centre=cx, dense=(tier == "thorough")))
    for i in range(4):
        for form in ("float", "string", "quantity"):
            out.append(dict(fam="convert", pair=i, form=form))
    for n in (1, 2, 7):
        out.append(dict(fam="wire", nseg=n))
    out.append(dict(fam="tdep_applied"))
    # large evaluation maps: every row of one big call against a direct sum and against the same rows evaluated in small calls
    for d, npos in (("tinyT", 1000), ("tinyT", 33331), ("G5", 80003)) if tier == "quick" else (("tinyT", 1000), ("tinyT", 33331), ("tinyT", 131075), ("G5", 80003), ("G5", 262147), ("G1", 50021)):
        out.append(dict(fam="bigmap", dev=d, npos=npos))
    return out


# ---------------------------------------------------------------------------------------------
def point_sets(scale=1.0):
    """name -> (x, y, z as passed to biot_savart_2d, canonical (m,3) array)"""
    P = {
        "one_list": ([0.3], [0.2], [1.1]),
        "one_array": (np.array([0.3]), np.array([0.2]), np.array([1.1])),
        "two": (np.array([0.3, -1.2]), np.array([0.2, 0.9]), np.array([1.1, 0.4])),
        "five": (np.array([0.3, -1.2, 2.5, 0.0, -0.7]), np.array([0.2, 0.9, -0.4, 0.0, 1.9]), np.array([1.1, 0.4, 2.0, 0.25, 0.6])),
        "m2_scalar_z": (np.array([0.3, -1.2, 2.5]), np.array([0.2, 0.9, -0.4]), 0.8),
        "m2_array_z": (np.array([0.3, -1.2, 2.5]), np.array([0.2, 0.9, -0.4]), np.array([0.8])),
        "below": (np.array([0.1, 0.9]), np.array([-0.3, 0.4]), np.array([-0.7, -1.5])),
        "far": (np.array([30.0, -55.0]), np.array([12.0, 80.0]), np.array([40.0, 5.0])),
        # integer-typed coordinates (np.arange grids, literal lists) with a fractional height
        "int_xy_scalar_z": (np.array([1, 2, -1]), np.array([0, -1, 2]), 0.5),
        "int_one": ([1], [2], 1.5),
        "int_all": (np.array([1, -1]), np.array([2, 0]), np.array([1, 2])),
    }
    out = {}
    for k, (x, y, z) in P.items():
        xs, ys = np.atleast_1d(np.asarray(x, float)) * scale, np.atleast_1d(np.asarray(y, float)) * scale
        zs = np.atleast_1d(np.asarray(z, float)) * scale
        if zs.shape[0] == 1:
            zs = zs * np.ones_like(xs)
        isc = int(scale) if float(scale).is_integer() else scale  # keep integer-typed coordinates integer-typed
        xx = [v * isc for v in x] if isinstance(x, list) else np.asarray(x) * isc
        yy = [v * isc for v in y] if isinstance(y, list) else np.asarray(y) * isc
        zz = [v * scale for v in z] if isinstance(z, list) else (z * scale if np.isscalar(z) else np.asarray(z) * (isc if np.asarray(z).dtype.kind == "i" else scale))
        out[k] = (xx, yy, zz, np.column_stack([xs, ys, zs]))
    return out


def ref_B(eval_si, src_si, K_si, a_si):
    """direct Biot-Savart (tesla), longdouble"""
    E = np.asarray(eval_si, np.longdouble)
    S = np.asarray(src_si, np.longdouble)
    K = np.asarray(K_si, np.longdouble)
    a = np.asarray(a_si, np.longdouble)
    out = np.zeros((len(E), 3), np.longdouble)
    for i in range(len(E)):
        d = E[i] - S
        r3 = (d**2).sum(axis=1) ** np.longdouble(1.5)
        pref = np.longdouble(MU0) / (4 * np.pi) * a / r3
        out[i, 0] = (pref * K[:, 1] * d[:, 2]).sum()
        out[i, 1] = (-pref * K[:, 0] * d[:, 2]).sum()
        out[i, 2] = (pref * (K[:, 0] * d[:, 1] - K[:, 1] * d[:, 0])).sum()
    return np.asarray(out, float)


def ref_A(eval_si, src_si, K_si, a_si):
    E = np.asarray(eval_si, np.longdouble)
    S = np.asarray(src_si, np.longdouble)
    K = np.asarray(K_si, np.longdouble)
    a = np.asarray(a_si, np.longdouble)
    out = np.zeros((len(E), 3), np.longdouble)
    for i in range(len(E)):
        d = E[i] - S
        r = np.sqrt((d**2).sum(axis=1))
        pref = np.longdouble(MU0) / (4 * np.pi) * a / r
        out[i, 0] = (pref * K[:, 0]).sum()
        out[i, 1] = (pref * K[:, 1]).sum()
    return np.asarray(out, float)


def _mesh(name):
    from .. import drivers, zoo

    return drivers.tiny(0).mesh if name == "tiny" else zoo.device(name).mesh


def run_bs2d(case):
    from tdgl.em import biot_savart_2d

    res = CaseResult()
    res.key = case_key(case)
    mesh = _mesh(case["mesh"])
    lu, cu = case["lu"], case["cu"]
    xi = 0.8  # user length units per mesh unit
    pos = mesh.sites * xi
    areas = mesh.areas * xi**2
    n = len(pos)
    z0 = 0.15
    src_si = np.column_stack([pos, np.full(n, z0)]) * LEN[lu]
    a_si = areas * LEN[lu] ** 2
    psets = point_sets()
    rng = np.random.default_rng(20)
    currents = []
    for k in range(n):
        for c in (0, 1):
            K = np.zeros((n, 2))
            K[k, c] = 1.0
            currents.append((f"basis{k}{'xy'[c]}", K))
    for q in range(3):
        currents.append((f"mix{q}", rng.normal(size=(n, 2))))
    res.count("basis_currents", 2 * n)
    for cname, K in currents:
        K_si = K * CURR[cu] / LEN[lu]
        psel = POINTSETS if cname.startswith("mix") or cname in ("basis0x", "basis1y") else ["five"]
        for pn in psel:
            x, y, z, canon = psets[pn]
            want = ref_B(canon * LEN[lu], src_si, K_si, a_si)
            scale = max(np.abs(want).max(), 1e-300)
            for vector in (True, False):
                K0_, pos0_, areas0_ = K.copy(), pos.copy(), areas.copy()
                got = biot_savart_2d(x, y, z, positions=pos, current_densities=K, z0=z0, areas=areas, length_units=lu, current_units=cu, vector=vector)
                if not (np.array_equal(K, K0_) and np.array_equal(pos, pos0_) and np.array_equal(areas, areas0_)):
                    res.violate("caller-array-modified", units=f"{lu}/{cu}", detail={"current": cname})
                    K[...] = K0_
                g = got.to("tesla").magnitude
                w = want if vector else want[:, 2]
                res.count("comparisons")
                if g.shape != w.shape:
                    res.violate("field-shape", points=pn, vector=vector, detail={"got": g.shape, "want": w.shape})
                    continue
                err = float(np.abs(g - w).max() / scale)
                res.residual("bs2d_si", err)
                if err > TOLERANCES["si"]:
                    comp = int(np.argmax(np.abs(g - w).max(axis=0))) if vector else 2
                    res.violate("biot-savart-differs-from-SI-sum", vector=vector, component="xyz"[comp], units=f"{lu}/{cu}" if err < 0.5 or (lu, cu) != ("um", "uA") else "any",
                                detail={"current": cname, "points": pn, "rel": err})
    res.nontrivial = True
    res.outcome = "bs2d"
    return res


# ---------------------------------------------------------------------------------------------
_SOL = {}


def _solution(dev_name, fu):
    import os
    import tempfile

    import tdgl

    from .. import drivers, zoo

    key = (dev_name, fu)
    if key in _SOL:
        return _SOL[key]
    import atexit
    import shutil

    d = tempfile.mkdtemp(prefix=f"c20-{os.environ.get('VERIF_RUN_TAG', 'x')}-", dir=os.environ.get("TMPDIR", "/tmp"))
    atexit.register(shutil.rmtree, d, True)
    if dev_name == "tinyT":
        base = drivers.tiny(2, terminals=True)
        dev = tdgl.Device("t", layer=tdgl.Layer(coherence_length=0.7, london_lambda=2.0, thickness=0.1, z0=0.15), film=base.film,
                          terminals=list(base.terminals), probe_points=base.probe_points)
        dev.make_mesh(max_edge_length=0.8)
        kw = dict(terminal_currents={"source": 1.0, "drain": -1.0})
    elif dev_name in ("G5nm", "G5mm"):
        dev = zoo.device("G5", units=dev_name[2:], z0=-0.2)
        kw = {}
    else:
        dev = zoo.device(dev_name, z0=-0.2)
        kw = {}
    dt = 2.0**-5
    B = 0.4 * {"mT": 1.0, "uT": 1e3, "T": 1e-3}[fu]
    cu_opt = {"G5nm": "nA", "G5mm": "mA"}.get(dev_name, "uA")
    opts = tdgl.SolverOptions(solve_time=4 * dt, dt_init=dt, dt_max=dt, adaptive=False, save_every=2, output_file=os.path.join(d, "s.h5"),
                              field_units=fu, current_units=cu_opt, progress_interval=10**9)
    sol = tdgl.solve(dev, opts, applied_vector_potential=B, **kw)
    _SOL[key] = (sol, B)
    return _SOL[key]


def run_sol(case):
    res = CaseResult()
    res.key = case_key(case)
    sol, B = _solution(case["dev"], case["fu"])
    dev = sol.device
    ureg = dev.ureg
    fu = case["fu"]
    lu = dev.length_units
    cu = sol.current_units
    xi = dev.layer.coherence_length
    pos = dev.points
    n = len(pos)
    areas = dev.mesh.areas * xi**2
    z0 = dev.layer.z0
    src_si = np.column_stack([pos, np.full(n, z0)]) * LEN[lu]
    a_si = areas * LEN[lu] ** 2
    Junit = ureg(f"{cu} / {lu}")
    rng = np.random.default_rng(21)
    # currents: the solution's own, a basis subset, superpositions
    own_s = sol.supercurrent_density.to(f"{cu}/{lu}").magnitude.copy()
    own_n = sol.normal_current_density.to(f"{cu}/{lu}").magnitude.copy()
    curr = [("own", own_s, own_n)]
    for k in list(range(0, n, max(1, n // 12))):
        for c in (0, 1):
            K = np.zeros((n, 2))
            K[k, c] = 1.0
            curr.append((f"basis{k}{'xy'[c]}", K, np.zeros((n, 2))))
            curr.append((f"nbasis{k}{'xy'[c]}", np.zeros((n, 2)), K))
    A1, A2 = rng.normal(size=(n, 2)), rng.normal(size=(n, 2))
    curr += [("mixA", A1, A2), ("mixB", A2, -0.5 * A1), ("mixSum", A1 + A2, A2 - 0.5 * A1)]
    res.count("basis_currents", len(curr))
    psets = point_sets(scale={"um": 1.0, "nm": 1e3, "mm": 1e-3}[lu])
    results = {}
    for cname, Ks, Kn in curr:
        sol.supercurrent_density = Ks * Junit
        sol.normal_current_density = Kn * Junit
        Ks_si, Kn_si = Ks * CURR[cu] / LEN[lu], Kn * CURR[cu] / LEN[lu]
        names = POINTSETS if cname in ("own", "mixA") else ["five", "one_list", "int_one"]
        for pn in names:
            x, y, z, canon = psets[pn]
            forms = [("m3", dict(positions=canon))]
            if pn == "m2_scalar_z":
                forms.append(("m2+scalar", dict(positions=canon[:, :2], zs=float(canon[0, 2]))))
            if pn in ("five", "two"):
                forms.append(("m2+array", dict(positions=canon[:, :2], zs=canon[:, 2])))
            if pn == "one_list":
                forms.append(("list", dict(positions=[float(canon[0, 0]), float(canon[0, 1]), float(canon[0, 2])])))
            if pn in ("int_xy_scalar_z", "int_one") and float(canon[0, 0]).is_integer():
                # integer-typed (m,2) positions with a scalar float height
                forms = [("int_m2+scalar", dict(positions=np.asarray(canon[:, :2]).astype(int) if len(canon) > 1 else [int(canon[0, 0]), int(canon[0, 1])], zs=float(canon[0, 2])))]
            if pn == "int_all" and float(canon[0, 0]).is_integer():
                forms = [("int_m3", dict(positions=np.asarray(canon).astype(int))), ("int_m2+int_array", dict(positions=np.asarray(canon[:, :2]).astype(int), zs=np.asarray(canon[:, 2]).astype(int)))]
            wantB_s = ref_B(canon * LEN[lu], src_si, Ks_si, a_si) / FU[fu]
            wantB_n = ref_B(canon * LEN[lu], src_si, Kn_si, a_si) / FU[fu]
            wantA_s = ref_A(canon * LEN[lu], src_si, Ks_si, a_si) / (FU[fu] * LEN[lu])
            wantA_n = ref_A(canon * LEN[lu], src_si, Kn_si, a_si) / (FU[fu] * LEN[lu])
            sB = max(np.abs(wantB_s).max(), np.abs(wantB_n).max(), 1e-300)
            sA = max(np.abs(wantA_s).max(), np.abs(wantA_n).max(), 1e-300)
            for fname, kw in forms:
                # ---- field ----
                try:
                    parts = sol.field_at_position(vector=True, units=fu, with_units=False, return_sum=False, **kw)
                    tot = sol.field_at_position(vector=True, units=fu, with_units=False, return_sum=True, **kw)
                    zonly = sol.field_at_position(vector=False, units=fu, with_units=False, return_sum=True, **kw)
                    totq = sol.field_at_position(vector=True, units=fu, with_units=True, return_sum=True, **kw)
                except Exception as exc:  # noqa: BLE001
                    res.violate("field-at-position-raises", form=fname, points=pn, exc=type(exc).__name__, detail={"msg": str(exc)[:200]})
                    continue
                res.count("comparisons", 4)
                e = max(np.abs(np.asarray(parts.supercurrent) - wantB_s).max(), np.abs(np.asarray(parts.normal_current) - wantB_n).max()) / sB
                res.residual("field_si", e)
                if e > TOLERANCES["si"]:
                    res.violate("field-differs-from-SI-sum", form=fname, units=fu, detail={"current": cname, "points": pn, "rel": float(e)})
                if np.abs(np.asarray(tot) - (np.asarray(parts.supercurrent) + np.asarray(parts.normal_current))).max() > TOLERANCES["form"] * sB:
                    res.violate("field-sum-is-not-sum-of-parts", form=fname)
                if np.abs(np.asarray(zonly) - np.asarray(tot)[:, 2]).max() > TOLERANCES["form"] * sB:
                    res.violate("scalar-form-differs-from-z-component", form=fname, detail={"current": cname, "points": pn})
                if np.abs(totq.to(fu).magnitude - np.asarray(tot)).max() > TOLERANCES["form"] * sB:
                    res.violate("with-units-changes-value", form=fname)
                # ---- vector potential ----
                try:
                    Aparts = sol.vector_potential_at_position(units=f"{fu} * {lu}", with_units=False, return_sum=False, **kw)
                    Atot = sol.vector_potential_at_position(units=f"{fu} * {lu}", with_units=False, return_sum=True, **kw)
                except Exception as exc:  # noqa: BLE001
                    res.violate("vector-potential-at-position-raises", form=fname, single_point=bool(len(canon) == 1), exc=type(exc).__name__,
                                detail={"points": pn, "msg": str(exc)[:200]})
                    continue
                res.count("comparisons", 2)
                eA = max(np.abs(np.asarray(Aparts["supercurrent_density"]) - wantA_s).max(), np.abs(np.asarray(Aparts["normal_current_density"]) - wantA_n).max()) / sA
                res.residual("vector_potential_si", eA)
                if eA > TOLERANCES["si"]:
                    res.violate("vector-potential-differs-from-SI-sum", form=fname, units=fu, detail={"current": cname, "points": pn, "rel": float(eA)})
                # applied part: uniform field B (gauge fixed by the library: centred on the evaluation points), curl checks value
                app = np.asarray(Aparts["applied"])
                ssum = app + np.asarray(Aparts["supercurrent_density"]) + np.asarray(Aparts["normal_current_density"])
                if np.abs(np.asarray(Atot) - ssum).max() > TOLERANCES["form"] * max(sA, np.abs(app).max()):
                    res.violate("vector-potential-sum-is-not-sum-of-parts", form=fname)
                if len(canon) >= 3:
                    # A_applied = B/2 (-(y-yc), (x-xc)) up to a constant: differences between points are gauge independent
                    dx = canon[1:, 0] - canon[0, 0]
                    dy = canon[1:, 1] - canon[0, 1]
                    want_d = np.column_stack([-B * dy / 2, B * dx / 2])
                    got_d = app[1:, :2] - app[0, :2]
                    if np.abs(got_d - want_d).max() > 1e-9 * max(np.abs(want_d).max(), 1e-300):
                        res.violate("applied-part-is-not-the-applied-potential", form=fname, units=fu, detail={"points": pn})
                if fname == "m3":
                    results[(cname, pn)] = (np.asarray(tot), np.asarray(Atot) - app)
        # evaluating fields must not change the currents they are evaluated from
        if not (np.array_equal(sol.supercurrent_density.to(f"{cu}/{lu}").magnitude, Ks) and np.array_equal(sol.normal_current_density.to(f"{cu}/{lu}").magnitude, Kn)):
            res.violate("evaluation-changes-the-stored-currents", units=f"{lu}/{cu}", detail={"current": cname})
    # additivity: mixSum = mixA + mixB
    for pn in ("five", "one_list"):
        if all((c, pn) in results for c in ("mixA", "mixB", "mixSum")):
            for q in (0, 1):
                lhs = results[("mixSum", pn)][q]
                rhs = results[("mixA", pn)][q] + results[("mixB", pn)][q]
                if np.abs(lhs - rhs).max() > 1e-11 * max(np.abs(lhs).max(), 1e-300):
                    res.violate("not-additive-in-the-currents", quantity=("field", "vector_potential")[q], detail={"points": pn})
    # points inside the film plane are refused rather than answered
    sol.supercurrent_density = own_s * Junit
    sol.normal_current_density = own_n * Junit
    # height scan: the same (m, 2) in-plane positions evaluated at one height after the other (scalar and array heights),
    # consecutive calls on one Solution object with nothing else in between
    sc_l = {"um": 1.0, "nm": 1e3, "mm": 1e-3}[lu]
    xy = np.array([[0.4, -0.3], [-1.1, 0.6], [2.0, 0.2], [0.0, 0.0]]) * sc_l
    for which in ("potential", "field"):
        for h in (0.5, 2.5, 1.0, np.array([0.5, 2.5, 1.0, 0.7]), -0.8, 2.5):
            hz = (np.asarray(h, float) * sc_l) if isinstance(h, np.ndarray) else float(h) * sc_l
            P3 = np.column_stack([xy, np.broadcast_to(hz, (len(xy),))])
            if which == "potential":
                want = (ref_A(P3 * LEN[lu], src_si, own_s * CURR[cu] / LEN[lu], a_si) + ref_A(P3 * LEN[lu], src_si, own_n * CURR[cu] / LEN[lu], a_si)) / (FU[fu] * LEN[lu])
                Ap = sol.vector_potential_at_position(xy, zs=hz, units=f"{fu} * {lu}", with_units=False, return_sum=False)
                got = np.asarray(Ap["supercurrent_density"]) + np.asarray(Ap["normal_current_density"])
            else:
                want = (ref_B(P3 * LEN[lu], src_si, own_s * CURR[cu] / LEN[lu], a_si) + ref_B(P3 * LEN[lu], src_si, own_n * CURR[cu] / LEN[lu], a_si)) / FU[fu]
                parts = sol.field_at_position(xy, zs=hz, vector=True, units=fu, with_units=False, return_sum=False)
                got = np.asarray(parts.supercurrent) + np.asarray(parts.normal_current)
            res.count("comparisons")
            e = np.abs(got - want).max() / max(np.abs(want).max(), 1e-300)
            if e > TOLERANCES["si"]:
                res.violate("height-scan-differs-from-SI-sum", quantity=which, array_heights=isinstance(h, np.ndarray), units=fu, detail={"height": np.asarray(h).tolist(), "rel": float(e)})
                break
    # step scan: the same positions at one recorded step after the other (the answer belongs to the step that is loaded)
    P3 = np.column_stack([xy, np.full(len(xy), 0.9 * sc_l)])
    last = sol.solve_step
    for i in range(sol.data_range[0], sol.data_range[1] + 1):
        sol.solve_step = i
        Ks_i = sol.supercurrent_density.to(f"{cu}/{lu}").magnitude
        Kn_i = sol.normal_current_density.to(f"{cu}/{lu}").magnitude
        want = (ref_A(P3 * LEN[lu], src_si, Ks_i * CURR[cu] / LEN[lu], a_si) + ref_A(P3 * LEN[lu], src_si, Kn_i * CURR[cu] / LEN[lu], a_si)) / (FU[fu] * LEN[lu])
        wantB = (ref_B(P3 * LEN[lu], src_si, Ks_i * CURR[cu] / LEN[lu], a_si) + ref_B(P3 * LEN[lu], src_si, Kn_i * CURR[cu] / LEN[lu], a_si)) / FU[fu]
        Ap = sol.vector_potential_at_position(P3, units=f"{fu} * {lu}", with_units=False, return_sum=False)
        got = np.asarray(Ap["supercurrent_density"]) + np.asarray(Ap["normal_current_density"])
        parts = sol.field_at_position(P3, vector=True, units=fu, with_units=False, return_sum=False)
        gotB = np.asarray(parts.supercurrent) + np.asarray(parts.normal_current)
        res.count("comparisons", 2)
        scA, scB = max(np.abs(want).max(), 1e-300), max(np.abs(wantB).max(), 1e-300)
        if np.abs(Ks_i).max() + np.abs(Kn_i).max() == 0:
            continue
        if np.abs(got - want).max() / scA > TOLERANCES["si"] or np.abs(gotB - wantB).max() / scB > TOLERANCES["si"]:
            res.violate("step-scan-differs-from-SI-sum", units=fu, detail={"step": i})
            break
    sol.solve_step = last
    # the same positions buffer evaluated again after it was updated in place; the buffer itself is never modified
    buf = np.array(psets["five"][3], float)
    for shift in ((0.0, 0.0, 0.0), (0.4, -0.3, 0.25), (-1.1, 0.2, 0.5)):
        buf += np.array(shift) * {"um": 1.0, "nm": 1e3, "mm": 1e-3}[lu]
        before = buf.copy()
        wantB = (ref_B(buf * LEN[lu], src_si, own_s * CURR[cu] / LEN[lu], a_si) + ref_B(buf * LEN[lu], src_si, own_n * CURR[cu] / LEN[lu], a_si)) / FU[fu]
        wantA = (ref_A(buf * LEN[lu], src_si, own_s * CURR[cu] / LEN[lu], a_si) + ref_A(buf * LEN[lu], src_si, own_n * CURR[cu] / LEN[lu], a_si)) / (FU[fu] * LEN[lu])
        parts = sol.field_at_position(buf, vector=True, units=fu, with_units=False, return_sum=False)
        gotB = np.asarray(parts.supercurrent) + np.asarray(parts.normal_current)
        Ap = sol.vector_potential_at_position(buf, units=f"{fu} * {lu}", with_units=False, return_sum=False)
        gotA = np.asarray(Ap["supercurrent_density"]) + np.asarray(Ap["normal_current_density"])
        res.count("comparisons", 2)
        if not np.array_equal(buf, before):
            res.violate("evaluation-modifies-the-positions", units=fu)
            break
        eB = np.abs(gotB - wantB).max() / max(np.abs(wantB).max(), 1e-300)
        eA = np.abs(gotA - wantA).max() / max(np.abs(wantA).max(), 1e-300)
        if eB > TOLERANCES["si"] or eA > TOLERANCES["si"]:
            res.violate("stale-answer-after-positions-updated-in-place", units=fu, detail={"field_rel": float(eB), "potential_rel": float(eA)})
            break
    res.nontrivial = True
    res.outcome = "sol"
    return res


# ---------------------------------------------------------------------------------------------
def run_loop(case):
    from scipy.integrate import quad
    from tdgl.em import current_loop_vector_potential

    res = CaseResult()
    res.key = case_key(case)
    R = case["R"]
    centre = [(0.0, 0.0, 0.0), (1.2, -0.7, 0.4), (-3.0, 2.0, -1.5)][case["centre"]]
    I = 2.5
    lu, cu = "um", "uA"
    rel_pos = [
        (0.0, 0.0, 0.7), (0.0, 0.0, -2.0), (0.0, 0.0, 0.0),  # on the axis: A = 0
        (0.3, 0.0, 0.5), (0.0, 0.4, -0.5), (1.7, 0.6, 0.0), (0.2, 0.1, 0.0),  # in plane, inside and outside
        (0.99, 0.0, 0.05), (1.0, 0.0, 0.3), (25.0, -14.0, 9.0), (0.02, 0.0, 1.0), (-0.6, 0.8, 2.2),
    ]
    if case["dense"]:
        rel_pos += [(a * np.cos(t), a * np.sin(t), z) for a in (0.05, 0.5, 1.5, 4.0) for t in (0.3, 2.0, 4.1) for z in (-0.8, 0.1)]
    pos = np.array(rel_pos) * R + np.array(centre)
    with np.errstate(all="ignore"):
        got = current_loop_vector_potential(pos, loop_center=centre, loop_radius=R, current=I, length_units=lu, current_units=cu).to("T * m").magnitude
    a, Isi = R * LEN[lu], I * CURR[cu]
    for k, p in enumerate(pos):
        d = (p - np.array(centre)) * LEN[lu]
        want = np.zeros(3)
        for comp, f in ((0, lambda t: -np.sin(t)), (1, lambda t: np.cos(t))):
            integrand = lambda t: a * f(t) / np.sqrt((d[0] - a * np.cos(t)) ** 2 + (d[1] - a * np.sin(t)) ** 2 + d[2] ** 2)
            want[comp] = MU0 * Isi / (4 * np.pi) * quad(integrand, 0, 2 * np.pi, epsabs=0, epsrel=1e-12, limit=400, points=[np.arctan2(d[1], d[0]) % (2 * np.pi)])[0]
        scale = MU0 * Isi / (4 * np.pi)  # natural magnitude of the dimensionless integral
        on_axis = bool(abs(rel_pos[k][0]) < 1e-15 and abs(rel_pos[k][1]) < 1e-15)
        res.count("comparisons")
        if not np.all(np.isfinite(got[k])):
            res.violate("loop-potential-not-finite", on_axis=on_axis, detail={"R": R, "rel_pos": rel_pos[k], "got": got[k]})
            continue
        err = float(np.abs(got[k] - want).max() / max(np.abs(want).max(), 1e-6 * scale))
        res.residual("loop", err)
        if err > TOLERANCES["loop"]:
            res.violate("loop-potential-differs-from-quadrature", on_axis=on_axis, detail={"R": R, "rel_pos": rel_pos[k], "got": got[k], "want": want})
    res.nontrivial = True
    res.outcome = "loop"
    return res


def run_convert(case):
    import pint
    from tdgl.em import convert_field, ureg as lib_ureg

    res = CaseResult()
    res.key = case_key(case)
    pairs = [("mT", "A / m"), ("uT", "uA / um"), ("T", "mA / mm"), ("gauss", "oersted")]
    values = [0.37, np.array([0.1, -2.5, 40.0])]
    BSI = {"mT": 1e-3, "uT": 1e-6, "T": 1.0, "gauss": 1e-4}
    for (bu, hu), v, form, reg in itertools.product([pairs[case["pair"]]], values, (case["form"],), ("given", "none")):
        if form == "string" and not np.isscalar(v):
            continue
        ur = lib_ureg if reg == "given" else None
        res.count("comparisons")
        try:
            if form == "float":
                H = convert_field(v, hu, old_units=bu, ureg=ur, with_units=True)
            elif form == "string":
                H = convert_field(f"{v} {bu}", hu, ureg=ur, with_units=True)
            else:
                H = convert_field(v * lib_ureg(bu), hu, ureg=ur, with_units=True)
            back = convert_field(H, bu, ureg=ur, with_units=False)
            hmag = convert_field(v, hu, old_units=bu, ureg=lib_ureg, with_units=False)
        except Exception as exc:  # noqa: BLE001
            res.violate("convert-field-raises", form=form, registry=reg, exc=type(exc).__name__, detail={"pair": [bu, hu], "msg": str(exc)[:200]})
            continue
        if np.abs(np.asarray(back) - np.asarray(v)).max() > TOLERANCES["convert"] * np.abs(np.asarray(v)).max():
            res.violate("conversion-does-not-round-trip", form=form, detail={"pair": [bu, hu]})
        # absolute: H = B / mu0 in SI
        b_si = np.asarray(v) * BSI[bu]
        h_si = np.asarray(hmag) * {"A / m": 1.0, "uA / um": 1.0, "mA / mm": 1.0, "oersted": 1000 / (4 * np.pi)}[hu]
        if np.abs(h_si - b_si / MU0).max() > 1e-9 * np.abs(b_si / MU0).max():
            res.violate("H-is-not-B-over-mu0", detail={"pair": [bu, hu], "h_si": h_si, "want": b_si / MU0})
    res.nontrivial = True
    res.outcome = "convert"
    return res


def run_wire(case):
    """tdgl.em.biot_savart (filamentary currents) and current_loop_field against a direct sum / the analytic on-axis field"""
    from tdgl.em import biot_savart, current_loop_field

    res = CaseResult()
    res.key = case_key(case)
    rng = np.random.default_rng(77)
    n = case["nseg"]
    pos = rng.normal(size=(n, 3))
    vec = rng.normal(size=(n, 3)) * 0.1
    cur = rng.normal(size=n)
    for m in (1, 2, 5):
        ev = rng.normal(size=(m, 3)) + np.array([4.0, 0.0, 3.0])
        forms = [ev] if m > 1 else [ev, ev[0], ev[0].tolist()]
        want = np.zeros((m, 3))
        for i in range(m):
            for k in range(n):
                r = ev[i] - pos[k]
                want[i] += MU0 / (4 * np.pi) * cur[k] * np.cross(vec[k], r) / np.linalg.norm(r) ** 3
        for f in forms:
            got = biot_savart(f, current_positions=(pos if n > 1 else pos[0]), current_vectors=(vec if n > 1 else vec[0]), currents=(cur if n > 1 else cur[0])).to("tesla").magnitude
            res.count("comparisons")
            if got.shape != want.shape or np.abs(got - want).max() > 1e-12 * np.abs(want).max():
                res.violate("wire-field-differs-from-direct-sum", detail={"n": n, "m": m})
    # loop field on the axis: mu0 I a^2 / (2 (a^2 + z^2)^{3/2}); the 100-segment polygon is accurate to ~1e-3
    for R, z, lu, cu in ((1.0, 0.0, "um", "uA"), (2.5, 1.7, "um", "mA"), (0.5, -3.0, "nm", "uA")):
        c = np.array([0.3, -0.2, 0.1])
        got = current_loop_field(c + np.array([0, 0, z]), loop_center=c, loop_radius=R, current=2.0, length_units=lu, current_units=cu).to("tesla").magnitude[0]
        a, zz, I = R * LEN[lu], z * LEN[lu], 2.0 * CURR[cu]
        wantz = MU0 * I * a**2 / (2 * (a**2 + zz**2) ** 1.5)
        res.count("comparisons")
        if abs(got[2] - wantz) > 2e-3 * abs(wantz) or np.abs(got[:2]).max() > 1e-3 * abs(wantz):
            res.violate("loop-field-on-axis", units=f"{lu}/{cu}", detail={"got": got, "want_z": wantz})
    res.nontrivial = True
    res.outcome = "wire"
    return res


def _tdep_field(x, y, z, *, t, B=0.4):
    b = B * (1.0 + 5.0 * t)
    return np.stack([-b * y / 2, b * x / 2, np.zeros_like(x)], axis=1)


def run_tdep_applied(case):
    """the applied part of vector_potential_at_position of a time-dependent field is evaluated at the time of the loaded step"""
    import os
    import tempfile

    import tdgl

    from .. import drivers

    res = CaseResult()
    res.key = case_key(case)
    dev = drivers.tiny(2)
    dt = 2.0**-5
    for k in (1, 2, 3):
        opts = tdgl.SolverOptions(solve_time=6 * dt, dt_init=dt, dt_max=dt, adaptive=False, save_every=k, output_file=f"td{k}.h5", progress_interval=10**9)
        sol = tdgl.solve(dev, opts, applied_vector_potential=tdgl.Parameter(_tdep_field, time_dependent=True))
        frames, _ = drivers.read_frames(f"td{k}.h5")
        pts = np.array([[0.1, 0.2, 1.0], [1.3, -0.4, 1.0], [-0.6, 0.9, 1.0]])
        for i, fr in enumerate(frames):
            sol.solve_step = i
            t = float(fr["attrs"]["time"])
            app = np.asarray(sol.vector_potential_at_position(pts, with_units=False, return_sum=False)["applied"])
            want = _tdep_field(pts[:, 0], pts[:, 1], pts[:, 2], t=t)
            res.count("comparisons")
            if np.abs(app - want).max() > 1e-12 * np.abs(want).max():
                res.violate("applied-part-evaluated-at-the-wrong-time", save_every=k, detail={"frame": i, "time": t, "got": app[0], "want": want[0]})
                break
    res.nontrivial = True
    res.outcome = "tdep_applied"
    return res


def _direct_f64(P_si, src_si, K_si, a_si, chunk=4096):
    """float64 direct sums (B (N,3) in tesla, A (N,2) in T m), evaluated in row chunks by the harness"""
    N = len(P_si)
    Bout = np.zeros((N, 3))
    Aout = np.zeros((N, 2))
    pref = MU0 / (4 * np.pi) * a_si
    for i0 in range(0, N, chunk):
        d = P_si[i0:i0 + chunk, None, :] - src_si[None, :, :]
        r2 = (d**2).sum(axis=2)
        r = np.sqrt(r2)
        w3 = pref / (r2 * r)
        Bout[i0:i0 + chunk, 0] = (w3 * K_si[:, 1] * d[:, :, 2]).sum(axis=1)
        Bout[i0:i0 + chunk, 1] = (-w3 * K_si[:, 0] * d[:, :, 2]).sum(axis=1)
        Bout[i0:i0 + chunk, 2] = (w3 * (K_si[:, 0] * d[:, :, 1] - K_si[:, 1] * d[:, :, 0])).sum(axis=1)
        w1 = pref / r
        Aout[i0:i0 + chunk, 0] = (w1 * K_si[:, 0]).sum(axis=1)
        Aout[i0:i0 + chunk, 1] = (w1 * K_si[:, 1]).sum(axis=1)
    return Bout, Aout


def run_bigmap(case):
    """One call with many evaluation points (a field map): every row must be the direct sum for that row, whatever the size of the call."""
    res = CaseResult()
    res.key = case_key(case)
    fu = "mT"
    sol, B = _solution(case["dev"], fu)
    dev = sol.device
    lu, cu = dev.length_units, sol.current_units
    xi = dev.layer.coherence_length
    pos = dev.points
    n = len(pos)
    z0 = dev.layer.z0
    src_si = np.column_stack([pos, np.full(n, z0)]) * LEN[lu]
    a_si = dev.mesh.areas * xi**2 * LEN[lu] ** 2
    Junit = dev.ureg(f"{cu} / {lu}")
    rng = np.random.default_rng(5)
    Ks, Kn = rng.normal(size=(n, 2)), rng.normal(size=(n, 2))
    sol.supercurrent_density = Ks * Junit
    sol.normal_current_density = Kn * Junit
    Ks_si, Kn_si = Ks * CURR[cu] / LEN[lu], Kn * CURR[cu] / LEN[lu]
    N = case["npos"]
    # a raster over and around the film, irrational spacing, heights varying along the map (never in the film plane)
    k = np.arange(N)
    span = 1.5 * float(np.abs(pos).max())
    P = np.column_stack([span * np.sin(0.7548776662 * k), span * np.cos(0.5698402910 * k), z0 + 0.35 + 1.7 * (0.5 + 0.5 * np.sin(0.1234567 * k))])
    wantB_s, wantA_s = _direct_f64(P * LEN[lu], src_si, Ks_si, a_si)
    wantB_n, wantA_n = _direct_f64(P * LEN[lu], src_si, Kn_si, a_si)
    wantB_s, wantB_n = wantB_s / FU[fu], wantB_n / FU[fu]
    wantA_s, wantA_n = wantA_s / (FU[fu] * LEN[lu]), wantA_n / (FU[fu] * LEN[lu])
    sB = max(np.abs(wantB_s).max(), np.abs(wantB_n).max())
    sA = max(np.abs(wantA_s).max(), np.abs(wantA_n).max())
    res.count("map_rows", N)
    for fname, kw in (("m3", dict(positions=P)), ("m2+array", dict(positions=P[:, :2], zs=P[:, 2]))):
        parts = sol.field_at_position(vector=True, units=fu, with_units=False, return_sum=False, **kw)
        zonly = sol.field_at_position(vector=False, units=fu, with_units=False, return_sum=True, **kw)
        Ap = sol.vector_potential_at_position(units=f"{fu} * {lu}", with_units=False, return_sum=False, **kw)
        Atot = sol.vector_potential_at_position(units=f"{fu} * {lu}", with_units=False, return_sum=True, **kw)
        res.count("comparisons", 4)
        got = {"field.supercurrent": (np.asarray(parts.supercurrent), wantB_s, sB), "field.normal": (np.asarray(parts.normal_current), wantB_n, sB),
               "field.z": (np.asarray(zonly), (wantB_s + wantB_n)[:, 2], sB),
               "potential.supercurrent": (np.asarray(Ap["supercurrent_density"])[:, :2], wantA_s, sA), "potential.normal": (np.asarray(Ap["normal_current_density"])[:, :2], wantA_n, sA),
               "potential.sum": (np.asarray(Atot)[:, :2] - np.asarray(Ap["applied"])[:, :2], wantA_s + wantA_n, sA)}
        for qn, (g, w, sc) in got.items():
            if g.shape != w.shape:
                res.violate("map-has-wrong-shape", quantity=qn, form=fname, detail={"got": list(g.shape), "want": list(w.shape)})
                continue
            err = np.abs(g - w)
            if err.ndim > 1:
                err = err.max(axis=1)
            bad = np.nonzero(err > TOLERANCES["si"] * sc)[0]
            res.residual("map_si", float(err.max() / sc))
            if len(bad):
                res.violate("rows-of-a-large-map-differ-from-the-direct-sum", quantity=qn, form=fname, large=bool(N * n > 2**20),
                            detail={"npos": N, "sites": n, "rows": int(len(bad)), "first": int(bad[0]), "last": int(bad[-1]), "rel": float(err.max() / sc)})
        # the same rows asked for in a small call
        idx = np.unique(np.concatenate([np.arange(0, 3), np.arange(N - 3, N), np.arange(N // 2, N // 2 + 2), np.arange(0, N, max(1, N // 97))]))
        kw2 = {a: (v[idx] if isinstance(v, np.ndarray) else v) for a, v in kw.items()}
        small = sol.vector_potential_at_position(units=f"{fu} * {lu}", with_units=False, return_sum=False, **kw2)
        smallB = sol.field_at_position(vector=True, units=fu, with_units=False, return_sum=True, **kw2)
        bigB = np.asarray(parts.supercurrent) + np.asarray(parts.normal_current)
        for qn, a, b, sc in (("potential.supercurrent", np.asarray(Ap["supercurrent_density"])[idx], np.asarray(small["supercurrent_density"]), sA),
                             ("potential.normal", np.asarray(Ap["normal_current_density"])[idx], np.asarray(small["normal_current_density"]), sA),
                             ("field", bigB[idx], np.asarray(smallB), sB)):
            res.count("comparisons")
            if a.shape != b.shape or np.abs(a - b).max() > 1e-11 * sc:
                res.violate("row-of-a-large-map-differs-from-the-same-point-asked-alone", quantity=qn, form=fname, detail={"npos": N, "sites": n})
    res.count("basis_currents", 1)
    res.nontrivial = True
    res.outcome = "bigmap"
    return res


def run_case(case):
    return {"bs2d": run_bs2d, "sol": run_sol, "loop": run_loop, "convert": run_convert, "wire": run_wire, "tdep_applied": run_tdep_applied, "bigmap": run_bigmap}[case["fam"]](case)
