"""C02 - each step solves the discretised TDGL equation on the physical branch.

Exhaustive finite grid over the whole per-site input space of the documented static method
TDGLSolver.solve_for_psi_squared (psi, mu, epsilon, gamma, u, dt, covariant-Laplacian action),
against an extended-precision reference of the documented formulas (z, w, quad-2, quad-root) with a
three-zone refusal rule; plus every real call made inside a set of driven runs.
"""
from __future__ import annotations

import itertools

import numpy as np

from ..core import CaseResult, case_key
from ..ref.physics import psi_update

ID = "C02"
LEVEL = "exploration"
RULE = (
    "grid: |psi| x arg psi x mu x epsilon x (Laplacian action) per call, one call family per (gamma, u, dt); zone A (discriminant clearly positive) points are "
    "answered as one batch and checked; each zone C (clearly negative) point is submitted alone and embedded among zone A points and must be refused; "
    "zone B (|disc| <= 1e-9 b^2) accepts either answer. recorded: every call made inside driven adaptive runs, and every step as a whole (the answer of adaptive_euler_step must solve the equation for the time step it reports, retries included), and in runs with a time-dependent disorder parameter the epsilon entering each step is the user's function at that step's time. "
    "Non-trivial = point with psi != 0 and non-zero Laplacian action or mu; distinct = grid point (gamma,u,dt,psi,mu,eps,lap)."
)
ASSUMPTIONS = [
    "the Laplacian action is injected through a real scipy.sparse matrix with one dense column hitting a helper site with psi = 1",
    "reference in numpy longdouble (80-bit); tolerances are relative to the magnitude S of the terms that make up w, so cancellation in w is not charged to the code",
    "disc >= 0 implies 2c+1 > 0 (since |c| <= |z||w|), so a non-negative discriminant is equivalent to the existence of a solution",
]
TOLERANCES = {"residual": 1e-12, "modulus": 1e-10, "root": 1e-9, "zone": 1e-9}


def bound(tier):
    return {
        "quick": "|psi| in {0,1e-8,0.1,0.5,1,1.5,3} x 4 phases x mu {0,+-0.3,+-50} x eps {-1,0,0.5,1} x 9 Laplacian actions x gamma {0,1e-4,0.1,1,10,100} x u {0.5,1,5.79} x dt 1e-10..1 (11 decades); 8 recorded runs (field, current, time-dependent epsilon vectorised and per site)",
        "thorough": "same + |psi| in {1e-100,1e-160,1e-30}, dt up to 10, 17 Laplacian actions, 8 phases; 48 recorded runs (4 drives x 3 dt_init x 2 gamma x 2 u)",
    }[tier]


def floors(tier):
    return {"distinct_nontrivial": 50, "count:zoneA_points": 100000, "count:zoneC_points": 500, "count:recorded_calls": 100, "count:recorded_refusals": 1, "count:recorded_steps_with_retries": 20, "count:recorded_updates_with_screening_iterations": 10}


GAMMAS = [0.0, 1e-4, 0.1, 1.0, 10.0, 100.0, 1e4]
GAMMAS_THOROUGH = [1e3, 1e6]
US = [0.5, 1.0, 5.79]


def cases(tier, seed):
    out = []
    dts = [10.0**k for k in range(-10, 0)] + ([1.0, 10.0] if tier == "thorough" else [1.0])
    for g, u, dt in itertools.product(GAMMAS + (GAMMAS_THOROUGH if tier == "thorough" else []), US, dts):
        out.append(dict(fam="grid", gamma=g, u=u, dt=dt, tier=tier))
    drives = ("field", "current", "eps_t", "eps_t_loop")
    if tier == "quick":
        recs = [("field", 0.5, 10.0, 5.79), ("field", 1.0, 1.0, 1.0), ("current", 0.5, 10.0, 5.79), ("current", 2.0, 1.0, 5.79), ("field", 2.0, 10.0, 1.0), ("current", 1.0, 1.0, 1.0),
                ("eps_t", 0.5, 10.0, 5.79), ("eps_t_loop", 1.0, 1.0, 5.79), ("screen", 0.25, 10.0, 5.79), ("screen", 0.5, 1.0, 1.0)]
    else:
        recs = list(itertools.product(drives, (0.5, 1.0, 2.0), (10.0, 1.0), (5.79, 1.0))) + list(itertools.product(("screen",), (0.125, 0.25, 0.5), (10.0, 1.0), (5.79, 1.0)))
    for drive, dti, g, u in recs:
        out.append(dict(fam="recorded", drive=drive, dt_init=dti, gamma=g, u=u))
    return out


def grid_points(tier):
    mods = [0.0, 1e-8, 0.1, 0.5, 1.0, 1.5, 3.0] + ([1e-30, 1e-100, 1e-160] if tier == "thorough" else [])
    nph = 4 if tier == "quick" else 8
    phases = [2 * np.pi * k / nph + 0.3 for k in range(nph)]
    psis = [0.0 + 0.0j] + [m * np.exp(1j * p) for m in mods if m for p in phases]
    mus = [0.0, 0.3, -0.3, 50.0, -50.0]
    epss = [-1.0, 0.0, 0.5, 1.0]
    laps = [0.0, 1e-3, -1e-3, 1.0, -1.0, 100.0 * np.exp(0.7j), -100.0 * np.exp(0.7j), 100j, 3.0 - 4.0j]
    if tier == "thorough":
        laps += [1e-12, -1e3, 1e3 * np.exp(2.1j), 0.5j, -0.5j, 10.0, -10.0, 1e4]
    G = np.array(list(itertools.product(psis, mus, epss, laps)), dtype=object)
    psi = np.array([g[0] for g in G], complex)
    mu = np.array([g[1] for g in G], float)
    eps = np.array([g[2] for g in G], float)
    lap = np.array([g[3] for g in G], complex)
    return psi, mu, eps, lap


NEAR = [-1e-2, -1e-4, -1e-6, 1e-6, 1e-4, 1e-2]
# ... and inside the undecided zone B (|disc| <= 1e-9 b^2): either answer is accepted there, but an answer must still be a number
NEAR_B = [-1e-10, -1e-11, -1e-12, -3e-13, -1e-13, -1e-14, -1e-15, 0.0, 1e-15, 1e-13, 1e-11]


def near_threshold_points(gamma, u, dt):
    """points whose discriminant is a prescribed small number (either sign): w is chosen perpendicular to z with
    |w| = sqrt((1 - delta)/4)/|z|, which gives disc = delta exactly, and the Laplacian action that produces this w is solved for."""
    if gamma == 0:
        return None
    P, M, E, L, F = [], [], [], [], []
    for mod, ph, mu, eps in itertools.product((0.5, 1.0), (0.3, 2.0), (0.0, 0.3), (1.0, 0.0)):
        psi = mod * np.exp(1j * ph)
        a2 = mod * mod
        U = np.exp(-1j * mu * dt)
        z = U * gamma**2 / 2 * psi
        s = np.sqrt(1 + gamma**2 * a2)
        for delta in NEAR + NEAR_B:
            r = np.sqrt((1 - delta) / 4) / abs(z)
            w = 1j * z / abs(z) * r
            lap = ((w - z * a2) / U - psi) / ((dt / u) * s) - (eps - a2) * psi
            P.append(psi), M.append(mu), E.append(eps), L.append(lap), F.append(delta in NEAR_B)
    return np.array(P, complex), np.array(M, float), np.array(E, float), np.array(L, complex), np.array(F, bool)


def call(psi, mu, eps, lap, gamma, u, dt, helper_first=False):
    """submit sites (plus the helper site, placed last or first) to the documented static method"""
    import scipy.sparse as sp
    from tdgl import TDGLSolver

    n = len(psi)
    if helper_first:
        psi_all = np.concatenate([[1.0 + 0.0j], psi])
        mu_all = np.concatenate([[0.0], mu])
        eps_all = np.concatenate([[1.0], eps])
        L = sp.csr_array((lap, (np.arange(1, n + 1), np.zeros(n, int))), shape=(n + 1, n + 1))
        sl = slice(1, n + 1)
    else:
        psi_all = np.concatenate([psi, [1.0 + 0.0j]])
        mu_all = np.concatenate([mu, [0.0]])
        eps_all = np.concatenate([eps, [1.0]])
        L = sp.csr_array((lap, (np.arange(n), np.full(n, n))), shape=(n + 1, n + 1))
        sl = slice(0, n)
    out = TDGLSolver.solve_for_psi_squared(
        psi=psi_all, abs_sq_psi=np.abs(psi_all) ** 2, mu=mu_all, epsilon=eps_all, gamma=gamma, u=u, dt=dt, psi_laplacian=L
    )
    if out is None:
        return None
    p, x = out
    return np.asarray(p)[sl], np.asarray(x)[sl]


def term_scale(psi, eps, lap, gamma, u, dt):
    a2 = np.abs(psi) ** 2
    return (gamma**2 / 2) * np.abs(psi) * a2 + np.abs(psi) + (dt / u) * np.sqrt(1 + gamma**2 * a2) * (np.abs(eps - a2) * np.abs(psi) + np.abs(lap))


def disc_scale(ref, psi, eps, lap, gamma, u, dt):
    """Magnitude of the terms that make up the discriminant 4c + 1 - 4s^2 (c + i s = conj(z) w) when each is formed from its own
    terms: |c|, |s| <= |z| S with S the magnitude of the terms of w.  Rounding of the inputs' own arithmetic moves the discriminant
    by a few ulps of this; a decision that depends on less than 1e-9 of it is left open (zone B)."""
    S = np.asarray(term_scale(psi, eps, lap, gamma, u, dt), np.longdouble)
    zS = np.abs(np.asarray(ref["z"])).astype(np.longdouble) * S
    return 1 + 4 * zS + 8 * np.abs(np.asarray(ref["s"], np.longdouble)) * zS


def check_answer(res, p, x, psi, mu, eps, lap, gamma, u, dt, ref, ctx):
    """p, x: answered values for zone-A points; ref: psi_update dict restricted to the same points"""
    S = term_scale(psi, eps, lap, gamma, u, dt)
    z = np.asarray(ref["z"], complex)
    w = np.asarray(ref["w"], complex)
    b = np.asarray(ref["b"], float)
    disc = np.asarray(ref["disc"], float)
    xp_ = np.asarray(ref["x_plus"], float)
    xm = np.asarray(ref["x_minus"], float)
    ok = True
    if np.iscomplexobj(x) and np.any(np.imag(x) != 0):
        res.violate("answer-complex", **ctx)
        return False
    x = np.real(x)
    if not np.all(np.isfinite(x)) or not np.all(np.isfinite(p)):
        res.violate("answer-not-finite", **ctx)
        return False
    if np.any(x < 0):
        res.violate("answer-negative", **ctx)
        ok = False
    zx = np.abs(z) * x
    r1 = np.abs(p + z * x - w) / np.maximum(S + zx, 1e-300)
    res.residual("residual", float(r1.max()))
    if r1.max() > TOLERANCES["residual"]:
        i = int(np.argmax(r1))
        res.violate("equation-not-satisfied", **ctx, detail={"psi": psi[i], "mu": mu[i], "eps": eps[i], "lap": lap[i], "rel": float(r1[i])})
        ok = False
    # |p|^2 - x: p = w - z x carries an error of a few ulps of S + |z| x; an error dx of x enters as sqrt(disc) dx, and dx is at most
    # x dT / (2 sqrt(disc) (b + sqrt(disc))) for a discriminant known to dT = ulps of its terms - no blow-up at the threshold
    T = np.asarray(disc_scale(ref, psi, eps, lap, gamma, u, dt), float)
    M = (S + zx) * np.maximum(np.abs(p), np.sqrt(np.maximum(x, 0))) + np.maximum(x, 0) * T / np.maximum(b + np.sqrt(np.maximum(disc, 0)), 1e-300)
    r2 = np.abs(np.abs(p) ** 2 - x) / np.maximum(M, 1e-300)
    res.residual("modulus", float(r2.max()))
    if r2.max() > TOLERANCES["modulus"]:
        i = int(np.argmax(r2))
        res.violate("reported-modulus-is-not-that-of-psi", **ctx, detail={"psi": psi[i], "mu": mu[i], "eps": eps[i], "lap": lap[i], "rel": float(r2[i])})
        ok = False
    amp = b / np.sqrt(np.maximum(disc, 1e-300))
    Sx = 2 * S**2 / np.maximum(b + np.sqrt(np.maximum(disc, 0)), 1e-300)
    r3 = np.abs(x - xp_) / np.maximum(amp * np.maximum(Sx, xp_), 1e-300)
    res.residual("root", float(r3.max()))
    if r3.max() > TOLERANCES["root"]:
        i = int(np.argmax(r3))
        other = bool(np.isfinite(xm[i]) and abs(x[i] - xm[i]) < abs(x[i] - xp_[i]))
        res.violate("wrong-root", other_branch=other, **ctx, detail={"psi": psi[i], "mu": mu[i], "eps": eps[i], "lap": lap[i], "x": float(x[i]), "x_plus": float(xp_[i]), "x_minus": float(xm[i])})
        ok = False
    return ok


def run_grid(case):
    res = CaseResult()
    res.key = case_key(case)
    g, u, dt = case["gamma"], case["u"], case["dt"]
    psi, mu, eps, lap = grid_points(case["tier"])
    # (for gamma > 100 the constructed near-threshold points need a Laplacian action that cancels gamma^2 |psi|^3 / 2 to many digits:
    #  whether they are solvable is then decided by the rounding of w itself, i.e. by the input, and they are left out)
    near = near_threshold_points(g, u, dt) if g <= 100 else None
    forcedB = np.zeros(len(psi), bool)
    if near is not None and dt >= 1e-6:  # for smaller dt the required Laplacian action is so large that rounding in w swamps delta
        forcedB = np.concatenate([forcedB, near[4]])
        psi, mu, eps, lap = (np.concatenate([a, b]) for a, b in zip((psi, mu, eps, lap), near[:4]))
        res.count("near_threshold_points", len(near[0]))
    ref = psi_update(psi, mu, eps, g, u, dt, lap)
    b = np.asarray(ref["b"], np.longdouble)
    disc = np.asarray(ref["disc"], np.longdouble)
    thr = np.longdouble(TOLERANCES["zone"]) * disc_scale(ref, psi, eps, lap, g, u, dt)
    finite = np.isfinite(np.asarray(disc, float)) & np.isfinite(np.asarray(ref["w"], complex))
    # points constructed to sit on the threshold are undecided whatever the reference says (the construction itself is rounded)
    zoneA = np.asarray(finite & (disc > thr) & ~forcedB)
    zoneC = np.asarray(finite & (disc < -thr) & ~forcedB)
    ctx = dict(gamma=g, u=u, dt=dt)
    res.count("zoneA_points", int(zoneA.sum()))
    res.count("zoneC_points", int(zoneC.sum()))
    res.count("zoneB_points", int((finite & ~zoneA & ~zoneC).sum()))
    res.count("overflow_points_excluded", int((~finite).sum()))
    res.executions = 0
    # ---- zone A as one batch: must be answered ---------------------------------------------
    iA = np.where(zoneA)[0]
    tiny = np.abs(psi[iA]) < 1e-20
    refA = {k: np.asarray(v)[iA] for k, v in ref.items()}
    out = call(psi[iA], mu[iA], eps[iA], lap[iA], g, u, dt)
    res.executions += 1
    if out is None:
        # find out which points cause the refusal: submit the tiny-|psi| ones separately
        out2 = call(psi[iA][~tiny], mu[iA][~tiny], eps[iA][~tiny], lap[iA][~tiny], g, u, dt) if tiny.any() else None
        res.violate("solvable-batch-refused", only_with_tiny_psi=bool(tiny.any() and out2 is not None), **ctx,
                    detail={"n": int(len(iA)), "min_abs_psi": float(np.abs(psi[iA])[np.abs(psi[iA]) > 0].min())})
        if out2 is not None:
            keep = ~tiny
            check_answer(res, out2[0], out2[1], psi[iA][keep], mu[iA][keep], eps[iA][keep], lap[iA][keep], g, u, dt,
                         {k: v[keep] for k, v in refA.items()}, ctx)
    else:
        check_answer(res, out[0], out[1], psi[iA], mu[iA], eps[iA], lap[iA], g, u, dt, refA, ctx)
    # ---- zone C: each alone and embedded: must be refused -----------------------------------
    iC = np.where(zoneC)[0]
    emb = iA[~tiny][:40]
    for i in iC:
        res.executions += 4
        alone = call(psi[[i]], mu[[i]], eps[[i]], lap[[i]], g, u, dt)
        ii = np.concatenate([emb[:20], [i], emb[20:]])
        embedded = call(psi[ii], mu[ii], eps[ii], lap[ii], g, u, dt)
        # ... and as the very last and the very first site of the batch
        jj = np.concatenate([emb[:10], [i]])
        last = call(psi[jj], mu[jj], eps[jj], lap[jj], g, u, dt, helper_first=True)
        kk = np.concatenate([[i], emb[:10]])
        first = call(psi[kk], mu[kk], eps[kk], lap[kk], g, u, dt)
        if last is not None or first is not None:
            res.violate("unsolvable-site-answered", alone=False, embedded=True, position=("last" if last is not None else "first"), **ctx,
                        detail={"psi": psi[i], "mu": mu[i], "eps": eps[i], "lap": lap[i], "disc_ref": float(disc[i])})
            break
        if alone is not None or embedded is not None:
            x = alone[1][0] if alone is not None else embedded[1][20]
            res.violate("unsolvable-site-answered", alone=bool(alone is not None), embedded=bool(embedded is not None), **ctx,
                        detail={"psi": psi[i], "mu": mu[i], "eps": eps[i], "lap": lap[i], "disc_ref": float(disc[i]), "x": x})
            break
    # ---- zone B (undecided): refusal and answer are both accepted, but an answer must be finite, real, non-negative,
    #      consistent (psi' = w - z x exactly as defined; |psi'|^2 = x to the conditioning of a double root) -------------
    iB = np.where(finite & ~zoneA & ~zoneC)[0]
    for i in iB:
        res.executions += 2
        for how in ("alone", "embedded"):
            if how == "alone":
                got = call(psi[[i]], mu[[i]], eps[[i]], lap[[i]], g, u, dt)
                pos = 0
            else:
                ii = np.concatenate([emb[:20], [i], emb[20:]])
                got = call(psi[ii], mu[ii], eps[ii], lap[ii], g, u, dt)
                pos = min(20, len(emb))
            if got is None:
                res.count("zoneB_refused")
                continue
            res.count("zoneB_answered")
            p_, x_ = complex(got[0][pos]), got[1][pos]
            bad = None
            if not (np.isfinite(p_.real) and np.isfinite(p_.imag) and np.isfinite(np.real(x_)) and np.isfinite(np.imag(x_))):
                bad = "answer-not-finite"
            elif np.imag(x_) != 0:
                bad = "answer-complex"
            elif np.real(x_) < 0:
                bad = "answer-negative"
            else:
                zi, wi = complex(ref["z"][i]), complex(ref["w"][i])
                # scale of the terms that make up w (cancellation inside w is not charged to the code), as in check_answer
                sc = float(term_scale(psi[[i]], eps[[i]], lap[[i]], g, u, dt)[0]) + abs(zi) * float(np.real(x_)) + 1e-300
                if abs(p_ + zi * float(np.real(x_)) - wi) > 1e-9 * sc:
                    bad = "equation-not-satisfied"
                elif abs(abs(p_) ** 2 - float(np.real(x_))) > 1e-3 * sc * sc:
                    bad = "reported-modulus-is-not-that-of-psi"
            if bad:
                res.violate(bad, zone="B", alone=(how == "alone"), **ctx, detail={"psi": psi[i], "mu": mu[i], "eps": eps[i], "lap": lap[i], "disc_ref": float(disc[i])})
                break
        else:
            continue
        break
    res.nontrivial = True
    res.outcome = f"grid;A={'yes' if len(iA) else 'no'};C={'yes' if len(iC) else 'no'}"
    return res


def run_recorded(case):
    import tdgl

    from .. import drivers

    res = CaseResult()
    res.key = case_key(case)
    dev = drivers.tiny(2, terminals=(case["drive"] == "current"))
    dev = tdgl.Device(dev.name, layer=tdgl.Layer(coherence_length=1.0, london_lambda=(0.6 if case["drive"] == "screen" else 2.0), thickness=0.1, gamma=case["gamma"], u=case["u"]),
                      film=dev.film, terminals=list(dev.terminals), probe_points=dev.probe_points)
    dev.mesh = drivers.tiny(2, terminals=(case["drive"] == "current")).mesh
    kw = {"applied_vector_potential": 1.6} if case["drive"] != "current" else {"applied_vector_potential": 0.8, "terminal_currents": {"source": 12.0, "drain": -12.0}}
    eps_user = None
    if case["drive"] == "eps_t":
        # time-dependent disorder parameter, vectorised signature: eps(r, t) over all sites at once
        def eps_user(r, *, t, vectorized=True):
            r = np.atleast_2d(r)
            return 1.0 - (0.3 + 0.1 * np.sin(0.7 * t)) * np.exp(-((r[:, 0] - 0.4) ** 2 + (r[:, 1] + 0.2) ** 2))

        kw["disorder_epsilon"] = eps_user
    elif case["drive"] == "eps_t_loop":
        # the same, called site by site (one position, scalar result)
        def eps_user(r, *, t, amp=0.3):  # a keyword-only default that is not 'vectorized': still called site by site
            return float(1.0 - (amp + 0.1 * np.sin(0.7 * t)) * np.exp(-((r[0] - 0.4) ** 2 + (r[1] + 0.2) ** 2)))

        kw["disorder_epsilon"] = eps_user
    opts = tdgl.SolverOptions(solve_time=4.0, dt_init=case["dt_init"], dt_max=2 * case["dt_init"], adaptive=True, adaptive_window=2,
                              adaptive_time_step_multiplier=0.5, max_solve_retries=14, progress_interval=10**9)
    if case["drive"] == "screen":
        # with screening the update iterates on the induced vector potential; the step it answers is still one update from (psi^n, mu^n)
        kw = {"applied_vector_potential": 0.9}
        opts.include_screening = True
        opts.screening_tolerance = 1e-3
    solver = tdgl.TDGLSolver(dev, opts, **kw)
    orig = tdgl.TDGLSolver.solve_for_psi_squared
    calls = []

    def rec(**k):
        out = orig(**k)
        calls.append((np.array(k["psi"]), np.array(k["mu"]), np.array(k["epsilon"]) * np.ones(len(k["psi"])), float(k["dt"]),
                      np.asarray(k["psi_laplacian"] @ k["psi"]), None if out is None else (np.array(out[0]), np.array(out[1]))))
        return out

    solver.solve_for_psi_squared = rec
    # the step as a whole: what adaptive_euler_step answers must solve the equation for the time step it *reports*
    # (after retries that is the reduced one), and that is the step length the caller records and advances the clock by
    steps = []
    orig_step = solver.adaptive_euler_step

    def rec_step(step, psi, abs_sq_psi, mu, epsilon, dt):
        pin, mun = np.array(psi), np.array(mu)
        epsn = np.array(epsilon) * np.ones(len(pin))
        lap = np.asarray(solver.operators.psi_laplacian @ pin)
        n0 = len(calls)
        out = orig_step(step, psi, abs_sq_psi, mu, epsilon, dt)
        steps.append((pin, mun, epsn, float(dt), lap, np.array(out[0]), np.array(out[1]), float(out[2]), len(calls) - n0, clock["time"]))
        return out

    solver.adaptive_euler_step = rec_step
    clock = {"time": None}
    orig_update = solver.update

    updates = []

    def rec_update(state, running_state, dt, **kw_):
        clock["time"] = float(state["time"])  # the time the caller attaches to this step
        pin, mun = np.array(kw_["psi"]), np.array(kw_["mu"])
        n0 = len(steps)
        out = orig_update(state, running_state, dt, **kw_)
        # the update as a whole: (psi^n, mu^n) -> psi^{n+1} with the time step it reports and the link variables it ended with
        lap = np.asarray(solver.operators.psi_laplacian @ pin)
        x_rep = steps[-1][6] if len(steps) > n0 else np.abs(np.array(out[1])) ** 2  # the squared modulus reported with the last psi update of this step
        updates.append((pin, mun, np.array(solver.epsilon) * np.ones(len(pin)), lap, np.array(out[1]), float(out[0]), len(steps) - n0, x_rep))
        return out

    solver.update = rec_update
    try:
        states, dts = drivers.hand_step(solver, 20)
        # further stages on the same solver (the run loop after thermalisation): the arrays of the last step are handed on as they
        # are, step counter and clock restart; an odd and an even number of steps before the restart
        st2, dts2 = drivers.hand_step(solver, 5, start=states[-1], dt0=dts[-1])
        st3, dts3 = drivers.hand_step(solver, 4, start=st2[-1], dt0=dts2[-1])
        st4, dts4 = drivers.hand_step(solver, 3, start=st3[-1], dt0=dts3[-1])
        res.count("recorded_stage_restarts", 3)
        # calls that do not continue the previous one (the update is a function of the state it is handed): an earlier state
        # submitted again, and an unrelated order parameter with an exact zero and |psi| > 1
        t_now = float(np.sum(dts))
        for k in (3, 11):
            if k < len(states) - 1:
                drivers.update_once(solver, {kk: np.array(v) for kk, v in states[k].items()}, len(dts), t_now, dts[k])
                res.count("recorded_updates_not_continuing_the_previous_call")
        rng = np.random.default_rng([int(case["gamma"] * 10), 202])
        odd = {kk: np.array(v) for kk, v in states[-1].items()}
        n_ = len(odd["psi"])
        odd["psi"] = (rng.uniform(0.0, 1.4, n_) * np.exp(2j * np.pi * rng.random(n_))).astype(complex)
        odd["psi"][n_ // 2] = 0.0
        if case["drive"] == "current":
            odd["psi"][np.asarray(solver.operators.fixed_sites, int)] = 0.0
        odd["mu"] = 0.3 * rng.normal(size=n_)
        drivers.update_once(solver, odd, len(dts), t_now, min(dts))
        res.count("recorded_updates_not_continuing_the_previous_call")
    except RuntimeError as exc:
        if "converge" not in str(exc):
            raise
    # hand_step wraps the attribute again with its own counter around `rec`? it wraps type(solver).solve_for_psi_squared: re-install
    g, u = case["gamma"], case["u"]
    for psi, mu, eps, dt, lap, out in calls:
        ref = psi_update(psi, mu, eps, g, u, dt, lap)
        b = np.asarray(ref["b"], float)
        disc = np.asarray(ref["disc"], float)
        dsc = np.asarray(disc_scale(ref, psi, eps, lap, g, u, dt), float)
        res.count("recorded_calls")
        ctx = dict(gamma=g, u=u, dt=float(f"{dt:.3g}"))
        if out is None:
            res.count("recorded_refusals")
            if np.all(disc > TOLERANCES["zone"] * dsc):
                res.violate("solvable-batch-refused", only_with_tiny_psi=False, **ctx, detail={"recorded": True, "min_disc": float(disc.min())})
        else:
            if np.any(disc < -TOLERANCES["zone"] * dsc):
                res.violate("unsolvable-site-answered", alone=False, embedded=True, **ctx, detail={"recorded": True, "min_disc": float(disc.min())})
                continue
            keep = disc > TOLERANCES["zone"] * dsc
            check_answer(res, out[0][keep], out[1][keep], psi[keep], mu[keep], eps[keep], lap[keep], g, u, dt, {k: np.asarray(v)[keep] for k, v in ref.items()}, ctx)
    sites = np.asarray(solver.sites)
    for psi, mu, eps, dt_in, lap, p_out, x_out, dt_out, ncalls, t_step in steps:
        res.count("recorded_steps")
        if eps_user is not None:
            # the disorder parameter entering step n is the user's function at the time of step n
            want_eps = eps_user(sites, t=t_step) if case["drive"] == "eps_t" else np.array([eps_user(r, t=t_step) for r in sites])
            res.count("time_dependent_epsilon_steps")
            if np.abs(eps - want_eps).max() > 1e-13:
                res.violate("epsilon-is-not-the-users-function-at-the-step-time", vectorized=bool(case["drive"] == "eps_t"),
                            detail={"t": t_step, "max_abs_diff": float(np.abs(eps - want_eps).max())})
        if ncalls > 1:
            res.count("recorded_steps_with_retries")
        ref = psi_update(psi, mu, eps, g, u, dt_out, lap)
        b = np.asarray(ref["b"], float)
        disc = np.asarray(ref["disc"], float)
        ctx = dict(gamma=g, u=u, dt=float(f"{dt_out:.3g}"))
        dsc = np.asarray(disc_scale(ref, psi, eps, lap, g, u, dt_out), float)
        if np.any(disc < -TOLERANCES["zone"] * dsc):
            res.violate("step-answered-for-a-time-step-without-solution", retries=bool(ncalls > 1), **ctx, detail={"dt_in": dt_in, "dt_reported": dt_out, "calls": ncalls})
            continue
        keep = disc > TOLERANCES["zone"] * dsc
        nv = len(res.violations)
        check_answer(res, p_out[keep], x_out[keep], psi[keep], mu[keep], eps[keep], lap[keep], g, u, dt_out, {k: np.asarray(v)[keep] for k, v in ref.items()}, dict(ctx, step_level=True))
        if len(res.violations) > nv:
            res.violations[-1]["detail"].update(dt_in=dt_in, dt_reported=dt_out, calls=ncalls)
    for psi, mu, eps, lap, p_out, dt_out, niter, x_out in updates:
        res.count("recorded_updates")
        if niter > 1:
            res.count("recorded_updates_with_screening_iterations")
        ref = psi_update(psi, mu, eps, g, u, dt_out, lap)
        b = np.asarray(ref["b"], float)
        disc = np.asarray(ref["disc"], float)
        keep = disc > TOLERANCES["zone"] * np.asarray(disc_scale(ref, psi, eps, lap, g, u, dt_out), float)
        if not keep.all():
            res.count("recorded_updates_near_threshold")
        nv = len(res.violations)
        check_answer(res, p_out[keep], x_out[keep], psi[keep], mu[keep], eps[keep], lap[keep], g, u, dt_out, {k: np.asarray(v)[keep] for k, v in ref.items()},
                     dict(gamma=g, u=u, dt=float(f"{dt_out:.3g}"), update_level=True, screening=bool(case["drive"] == "screen")))
        if len(res.violations) > nv:
            res.violations[-1]["detail"].update(dt_reported=dt_out, psi_updates_inside_this_step=niter)
    res.nontrivial = len(calls) > 5
    res.outcome = "recorded"
    return res


def run_case(case):
    return run_grid(case) if case["fam"] == "grid" else run_recorded(case)
