"""C19 - ill-posed problems are rejected before anything is written.

Every member of the enumerated classes of ill-posed input x devices x defect magnitudes x output
destinations is submitted to the public entry points; the oracle requires an exception and an
unchanged recursive snapshot of the sandbox directory and of the private temp directory, with no
HDF5 file left open.  Each class has a positive control (the repaired input is accepted).
"""
from __future__ import annotations

import gc
import itertools
import os
import tempfile

import numpy as np

from ..core import CaseResult, case_key

ID = "C19"
LEVEL = "fault_enumeration"
RULE = (
    "classes {unbalanced constant currents, unbalanced callable currents (always / late / growing), unknown terminal, epsilon > 1 (scalar / spatial / time-dependent), "
    "each SolverOptions rule, empty terminal (inside / outside), the same defects reached in place on objects used successfully before (terminal moved / re-assigned, options or currents mutated, device changed after it produced the seed), foreign seed (geometry / layer / units / mesh-less), vector potential of wrong shape, invalid polygons, invalid device definitions} "
    "x devices x magnitudes {1, 1e-3, 1e-6} x output {None, path, nested path} x validator seeds. Non-trivial = the defect is the only defect of the input; distinct = case parameters."
)
ASSUMPTIONS = [
    "the current validator's random times are drawn from a harness-seeded generator (seeds enumerated)",
    "callable currents whose imbalance is confined to a window narrower than T/20 are outside the classes (the validator samples 100 times)",
    "'inconsistent solver options' = the constraints SolverOptions.validate states, plus the values with which no run can be carried out at all: dt_init <= 0 or NaN (the clock never advances) and a save_every that is not a positive integer (no frame schedule)",
]
MAGS = [1.0, 1e-3, 1e-6]
TERMS = {"G1": ["source", "drain"], "G3": ["left", "right", "stem"], "G4": ["w", "e", "n", "s"]}


def bound(tier):
    return {
        "quick": "11 classes (37 variants) x devices {G1,G3} x 3 magnitudes x outputs {None, out.h5}; validator seeds {0,1}",
        "thorough": "11 classes x devices {G1,G3,G4} x 3 magnitudes x outputs {None, out.h5, sub/dir/out.h5}; validator seeds 0..4",
    }[tier]


def floors(tier):
    return {"distinct_nontrivial": 100, "count:rejected": 100, "count:controls_accepted": 20, "outcomes": 8}


def variants():
    v = []
    v += [("currents_const", k) for k in ("one_extra", "all_same_sign", "missing_return", "one_less", "all_negative", "return_omitted", "nan_one", "nan_all")]
    v += [("currents_callable", k) for k in ("always", "late", "growing", "always_negative", "late_negative", "early_with_thermalisation", "early", "late_in_long_thermalisation")]
    v += [("unknown_terminal", "callable")]
    v += [("epsilon", k) for k in ("scalar", "spatial", "spatial_one_site", "time_dependent")]
    v += [("options", k) for k in ("dt_init_gt_dt_max", "terminal_psi_abs", "multiplier_low", "multiplier_high", "drag_zero", "drag_high", "step_size", "tolerance", "tolerance_zero", "step_size_negative", "multiplier_negative", "multiplier_one", "drag_negative",
                                   "solver_name", "gpu", "cupy_without_gpu",
                                   # values with which no run can be carried out at all (D33): the loop never advances / the frame schedule is undefined
                                   "dt_init_zero", "dt_init_negative", "dt_init_negative_adaptive_off", "dt_init_nan", "save_every_zero", "save_every_negative", "save_every_fraction")]
    v += [("empty_terminal", k) for k in ("inside", "outside", "vertex_only")]
    v += [("seed", k) for k in ("geometry", "film_scaled", "layer", "units", "probe_points", "name", "no_terminals", "fewer_terminals", "extra_hole", "renamed_terminal", "other_mesh_finer", "other_mesh_more_points", "other_mesh_smoothed")]
    # the ill-posed state is reached on objects that were valid, and were used successfully, before
    v += [("history", k) for k in ("terminal_moved_inside", "terminal_moved_outside", "terminal_points_set", "terminals_reassigned", "options_mutated",
                                   "currents_dict_mutated", "layer_changed_after_seed", "terminal_moved_after_seed",
                                   "options_mutated_after_solver_built", "solver_name_mutated_after_solver_built")]
    v += [("vector_potential", k) for k in ("n", "n1", "nplus1", "scalar_callable")]
    v += [("polygon", k) for k in ("bowtie", "two_points", "interior_ring", "collinear")]
    v += [("device", k) for k in ("duplicate_terminals", "unnamed_terminal", "duplicate_holes", "unnamed_film", "probe_outside", "probe_in_hole", "probe_shape")]
    return v


def cases(tier, seed):
    quick = tier == "quick"
    out = []
    devs = ["G1", "G3"] if quick else ["G1", "G3", "G4"]
    outputs = [None, "out.h5"] if quick else [None, "out.h5", "sub/dir/out.h5"]
    seeds = [0, 1] if quick else [0, 1, 2, 3, 4]
    for (cls, var), d, outp in itertools.product(variants(), devs, outputs):
        mags = MAGS if cls in ("currents_const", "currents_callable", "epsilon") or (cls, var) in (
            ("seed", "film_scaled"), ("seed", "layer"), ("options", "dt_init_gt_dt_max"), ("options", "terminal_psi_abs"), ("options", "multiplier_high"), ("options", "drag_high")) else [1.0]
        sds = seeds if cls in ("currents_callable", "unknown_terminal") else [0]
        if cls in ("polygon", "device") and (d != devs[0] or outp != outputs[0]):
            continue
        for m, sd in itertools.product(mags, sds):
            c = dict(cls=cls, var=var, dev=d, mag=m, output=outp, rng=sd)
            if cls == "options" and var.startswith("dt_init_"):
                c["timeout_s"] = 120  # accepted, such a run never ends (a rejected one answers within milliseconds)
            out.append(c)
    if quick:
        # a nested output path (directories that do not exist yet) for one member of the classes that fail latest
        for cls, var in (("currents_const", "one_extra"), ("currents_callable", "late"), ("empty_terminal", "inside"), ("seed", "geometry"), ("seed", "extra_hole"),
                         ("history", "terminal_moved_inside"), ("history", "terminals_reassigned"), ("epsilon", "time_dependent"), ("vector_potential", "n1")):
            out.append(dict(cls=cls, var=var, dev="G1", mag=1.0, output="sub/dir/out.h5", rng=0))
    for d in devs:
        for outp in outputs:
            for var in ("ok", "callable_balanced", "eps_exactly_one", "options_boundary", "same_device_seed", "rounding_level_imbalance"):
                out.append(dict(cls="control", var=var, dev=d, mag=0.0, output=outp, rng=0))
    return out


# ---------------------------------------------------------------------------------------------
def _eps_spatial(r, *, vectorized=True, top=1.0):
    return 1.0 - 0.2 * np.exp(-(r[:, 0] ** 2 + r[:, 1] ** 2)) * 0 + (top - 1.0) * np.exp(-((r[:, 0] - 0.3) ** 2 + (r[:, 1] + 0.2) ** 2) * 0.0)


def _remeshed(name, factor, smooth, extra_points=0):
    from .. import zoo

    ref = zoo.device(name)
    d = zoo.device(name, mesh=False, memo=False)
    d.make_mesh(max_edge_length=zoo.DENSITY["coarse"] * factor, smooth=smooth, min_points=(len(ref.mesh.sites) + extra_points) if extra_points else None)
    if d.mesh.sites.shape == ref.mesh.sites.shape and np.allclose(d.mesh.sites, ref.mesh.sites):
        raise RuntimeError("harness: the re-meshed fixture has the mesh of the reference device")
    return d


def run_case(case):
    import tdgl
    from tdgl.geometry import box, circle

    from .. import env, zoo

    res = CaseResult()
    res.key = case_key(case)
    cls, var, m = case["cls"], case["var"], case["mag"]
    dev = zoo.device(case["dev"])
    names = TERMS[case["dev"]]
    base_cur = {2: [2.0, -2.0], 3: [1.0, 2.0, -3.0], 4: [1.0, 2.0, -3.5, 0.5]}[len(names)]
    T = 0.5
    okw = dict(solve_time=T, dt_init=1e-3, dt_max=1e-2, output_file=case["output"], progress_interval=10**9)
    skw = dict(applied_vector_potential=0.2, terminal_currents=dict(zip(names, base_cur)))
    make = None  # callable that performs the ill-posed action
    expect_accept = False

    def solve_with(okw_, skw_, device=dev):
        return lambda: tdgl.solve(device, tdgl.SolverOptions(**okw_), **skw_)

    if cls == "control":
        okw["solve_time"] = 3e-3
        if var == "callable_balanced":
            skw["terminal_currents"] = lambda t: {n: c * (0.1 + t / 3) for n, c in zip(names, base_cur)}
        elif var == "eps_exactly_one":
            skw["disorder_epsilon"] = lambda r: 1.0
        elif var == "options_boundary":
            okw.update(dt_init=1e-2, dt_max=1e-2, adaptive_time_step_multiplier=0.999, screening_step_drag=1.0, terminal_psi=1.0, save_every=np.int64(1))
        elif var == "rounding_level_imbalance":
            cur = [0.1 * c for c in base_cur]  # 0.1+0.2-0.3 != 0 in binary
            skw["terminal_currents"] = dict(zip(names, cur))
        elif var == "same_device_seed":
            sd = tempfile.mkdtemp(prefix="seed-", dir=tempfile.gettempdir())
            o2 = tdgl.SolverOptions(solve_time=3e-3, dt_init=1e-3, dt_max=1e-2, output_file=os.path.join(sd, "seed.h5"), progress_interval=10**9)
            skw["seed_solution"] = tdgl.solve(dev, o2, **skw)
        make = solve_with(okw, skw)
        expect_accept = True
    elif cls == "currents_const":
        cur = list(base_cur)
        if var == "one_extra":
            cur[0] += m * abs(cur[0])
        elif var == "all_same_sign":
            cur = [abs(c) * m for c in cur]
        elif var == "one_less":  # net current negative
            cur[0] -= m * abs(cur[0])
        elif var == "all_negative":
            cur = [-abs(c) * m for c in cur]
        elif var == "missing_return":  # the return path carries a bit less
            cur[-1] *= 1 - m
        if var == "nan_one":  # a sum that is not a number is not zero
            cur[0] = float("nan")
        elif var == "nan_all":
            cur = [float("nan")] * len(cur)
        skw["terminal_currents"] = dict(zip(names, cur))
        if var == "return_omitted":
            # the dict does not mention the return terminal at all (an omitted terminal carries no current)
            skw["terminal_currents"] = {n: c * m for n, c in list(zip(names, cur))[:-1]}
        make = solve_with(okw, skw)
    elif cls == "currents_callable":
        def f(t, var=var):
            cur = list(base_cur)
            if var == "always":
                cur[0] += m * abs(cur[0])
            elif var == "always_negative":
                cur[0] -= m * abs(cur[0])
            elif var == "late_negative":
                if t > T / 2:
                    cur[0] -= m * abs(cur[0])
            elif var in ("early", "early_with_thermalisation"):
                if t < 0.3 * T:  # a switch-on transient: the return path lags
                    cur[0] += m * abs(cur[0])
            elif var == "late_in_long_thermalisation":
                if t > 1.25 * T:  # only the thermalisation stage (skip_time = 2.5 T) reaches these times
                    cur[0] += m * abs(cur[0])
            elif var == "late":
                if t > T / 2:
                    cur[0] += m * abs(cur[0])
            else:
                cur[0] += m * abs(cur[0]) * (t / T)
            return dict(zip(names, cur))
        skw["terminal_currents"] = f
        if var == "late_in_long_thermalisation":
            okw["skip_time"] = 2.5 * T
        if var == "early_with_thermalisation":
            okw["skip_time"] = T  # the same callable is evaluated from t = 0 in the thermalisation stage and again in the recorded stage
        make = solve_with(okw, skw)
    elif cls == "unknown_terminal":
        def f(t):
            d = dict(zip(names, base_cur))
            d["nonexistent"] = 0.0
            return d
        skw["terminal_currents"] = f
        make = solve_with(okw, skw)
    elif cls == "epsilon":
        if var == "scalar":
            skw["disorder_epsilon"] = 1.0 + m
        elif var == "spatial":
            skw["disorder_epsilon"] = lambda r: 1.0 + m * float(np.exp(-(r[0] ** 2 + r[1] ** 2)))
        elif var == "spatial_one_site":
            site = dev.points[len(dev.points) // 2]
            skw["disorder_epsilon"] = lambda r: 1.0 + m if (abs(r[0] - site[0]) < 1e-9 and abs(r[1] - site[1]) < 1e-9) else 0.9
        else:
            def eps_t(r, *, t, vectorized=True):
                return (1.0 + m) * np.ones(len(r)) if t == 0 else np.ones(len(r))
            skw["disorder_epsilon"] = eps_t
        make = solve_with(okw, skw)
    elif cls == "options":
        bad = {
            "dt_init_gt_dt_max": dict(dt_init=1e-2 * (1 + m), dt_max=1e-2),
            "terminal_psi_abs": dict(terminal_psi=(1 + m) * np.exp(0.3j)),
            "multiplier_low": dict(adaptive_time_step_multiplier=0.0),
            "multiplier_high": dict(adaptive_time_step_multiplier=1.0 + (m if m < 1 else 0.0)),
            "drag_zero": dict(screening_step_drag=0.0),
            "drag_high": dict(screening_step_drag=1.0 + m),
            "step_size": dict(screening_step_size=0.0),
            "tolerance": dict(screening_tolerance=-1e-3),
            "tolerance_zero": dict(screening_tolerance=0.0),
            "step_size_negative": dict(screening_step_size=-0.1),
            "multiplier_negative": dict(adaptive_time_step_multiplier=-0.25),
            "multiplier_one": dict(adaptive_time_step_multiplier=1.0),
            "drag_negative": dict(screening_step_drag=-0.5),
            "solver_name": dict(sparse_solver="superlu2"),
            "gpu": dict(gpu=True),
            "cupy_without_gpu": dict(sparse_solver="cupy"),
            "dt_init_zero": dict(dt_init=0.0),
            "dt_init_negative": dict(dt_init=-1e-3),
            "dt_init_negative_adaptive_off": dict(dt_init=-1e-3, adaptive=False),
            "dt_init_nan": dict(dt_init=float("nan")),
            "save_every_zero": dict(save_every=0),
            "save_every_negative": dict(save_every=-3),
            "save_every_fraction": dict(save_every=2.5),
        }[var]
        okw.update(bad)
        make = solve_with(okw, skw)
    elif cls == "empty_terminal":
        g = zoo.geometry(case["dev"])
        if var == "vertex_only":
            # a terminal so small that it contains one boundary site of the mesh and the centre of no boundary edge: it covers no
            # boundary length (the documented rule assigns a boundary edge to the terminal that contains its centre), no current can enter
            em = dev.mesh.edge_mesh
            bedges = em.edges[em.boundary_edge_indices]
            pts = dev.points
            cand = sorted(set(bedges.ravel().tolist()))
            site = next(i for i in cand[len(cand) // 3:] + cand if not any(t.contains_points(pts[i]) for t in dev.terminals))
            lmin = min(np.linalg.norm(pts[a] - pts[b]) for a, b in bedges if site in (a, b))
            extra = tdgl.Polygon("floating", points=box(0.3 * lmin, 0.3 * lmin, center=tuple(pts[site])))
        else:
            extra = tdgl.Polygon("floating", points=circle(0.2, points=12, center=((0.1, 0.1) if var == "inside" else (40.0, 40.0))))
        d2 = tdgl.Device("x", layer=dev.layer.copy(), film=g["film"], holes=g["holes"], terminals=list(g["terminals"]) + [extra], probe_points=g["probe_points"])
        d2.mesh = dev.mesh
        skw["terminal_currents"] = dict(zip(names, base_cur))
        make = solve_with(okw, skw, device=d2)
    elif cls == "seed":
        # a legitimate solution of a *different* device, produced outside the sandbox snapshot
        other = {
            "geometry": lambda: zoo.device({"G1": "G3", "G3": "G1", "G4": "G1"}[case["dev"]]),
            "layer": lambda: zoo.device(case["dev"], lam=2.0 * (1 + case["mag"] * (1e-6 if case["mag"] == 1.0 else 1.0))),
            # the same mesh, the film outline scaled by the given relative amount
            "film_scaled": lambda: _variant(dev, film_scale=1.0 + 0.5 * case["mag"]),
            "units": lambda: zoo.with_mesh_of(dev, case["dev"], "nm"),
            "probe_points": lambda: zoo.device(case["dev"], probes=False),
            "name": lambda: _renamed(dev),
            "no_terminals": lambda: _variant(dev, terminals=[]),
            "fewer_terminals": lambda: _variant(dev, terminals=sorted(dev.terminals, key=lambda t: t.name)[:1]),
            "extra_hole": lambda: _variant(dev, extra_hole=True),
            "renamed_terminal": lambda: _variant(dev, rename_terminal=True),
            # the same device definition (Device.__eq__ holds), another mesh: the seed's arrays do not belong to the mesh that is simulated
            "other_mesh_finer": lambda: zoo.device(case["dev"], density="fine", memo=False),
            "other_mesh_more_points": lambda: _remeshed(case["dev"], 1.0, 0, extra_points=40),
            "other_mesh_smoothed": lambda: _remeshed(case["dev"], 1.0, 3),
        }[var]()
        sd = tempfile.mkdtemp(prefix="seed-", dir=tempfile.gettempdir())
        o2 = tdgl.SolverOptions(solve_time=3e-3, dt_init=1e-3, dt_max=1e-2, output_file=os.path.join(sd, "seed.h5"), progress_interval=10**9,
                                field_units=("uT" if var == "units" else "mT"), current_units=("nA" if var == "units" else "uA"))
        tn = [t.name for t in other.terminals]
        seed = tdgl.solve(other, o2, applied_vector_potential=0.2, terminal_currents=None)
        skw["seed_solution"] = seed
        make = solve_with(okw, skw)
    elif cls == "history":
        d2 = dev.copy()  # private polygons and layer; the mesh object is shared and never modified
        sd = tempfile.mkdtemp(prefix="seed-", dir=tempfile.gettempdir())
        opts1 = tdgl.SolverOptions(solve_time=3e-3, dt_init=1e-3, dt_max=1e-2, output_file=os.path.join(sd, "first.h5"), progress_interval=10**9)
        cur1 = dict(zip(names, base_cur))
        first = tdgl.solve(d2, opts1, applied_vector_potential=0.2, terminal_currents=cur1)  # the well-posed first use
        assert first is not None
        _ = d2.terminal_info(), d2.points, d2.triangulation
        tsorted = sorted(d2.terminals, key=lambda t: t.name)
        t0 = tsorted[0]
        cx, cy = t0.points[:-1].mean(axis=0)
        opts2 = tdgl.SolverOptions(**okw)
        if var == "terminal_moved_inside":
            t0.translate(dx=-cx + 0.15, dy=-cy + 0.1, inplace=True)  # now floats strictly inside the film: covers no boundary
            if case["dev"] != "G1":
                t0.scale(xfact=0.3, yfact=0.3, inplace=True)
        elif var == "terminal_moved_outside":
            t0.translate(dx=40.0, dy=40.0, inplace=True)
        elif var == "terminal_points_set":
            t0.points = circle(0.2, points=12, center=(40.0, -40.0))
        elif var == "terminals_reassigned":
            d2.terminals = tuple(t for t in d2.terminals if t is not t0) + (tdgl.Polygon(t0.name, points=circle(0.2, points=12, center=(40.0, 40.0))),)
        elif var == "options_mutated":
            opts2 = opts1
            opts2.output_file = case["output"]
            opts2.solve_time = T
            opts2.dt_init = 1.0  # > dt_max
        elif var == "currents_dict_mutated":
            cur1[names[0]] += 0.5 * abs(cur1[names[0]])
        elif var == "layer_changed_after_seed":
            d2.layer.london_lambda = d2.layer.london_lambda * 1.5
            skw["seed_solution"] = first
        elif var == "terminal_moved_after_seed":
            # the seed was computed with the terminal elsewhere: a solution of a different device
            t0.translate(dx=0.0, dy=0.3, inplace=True)
            skw["seed_solution"] = first
        skw["terminal_currents"] = cur1
        make = lambda: tdgl.solve(d2, opts2, **skw)  # noqa: E731
        if var.endswith("after_solver_built"):
            # the solver object is built from a well-posed problem; the problem is made ill-posed in place before solve() is called
            solver = tdgl.TDGLSolver(d2, opts2, **skw)
            if var == "options_mutated_after_solver_built":
                opts2.dt_init = opts2.dt_max * (1 + 1e-6)
            else:
                opts2.sparse_solver = "bogus"
            # (moving a terminal polygon after the solver was built is not in this class: the solver simulates the problem it was
            # built from, which is well-posed)
            make = solver.solve
    elif cls == "vector_potential":
        n_e = len(dev.mesh.edge_mesh.edges)
        fn = {
            "n": lambda x, y, z: np.zeros(len(x)),
            "n1": lambda x, y, z: np.zeros((len(x), 1)),
            "nplus1": lambda x, y, z: np.zeros((len(x) + 1, 2)),
            "scalar_callable": lambda x, y, z: 0.5,
        }[var]
        skw["applied_vector_potential"] = fn
        make = solve_with(okw, skw)
    elif cls == "polygon":
        pts = {
            "bowtie": [(0, 0), (2, 2), (2, 0), (0, 2)],
            "two_points": [(0, 0), (1, 1)],
            "interior_ring": None,
            "collinear": [(0, 0), (1, 1), (2, 2)],
        }[var]
        if var == "interior_ring":
            from shapely.geometry import Polygon as SP

            pts = SP(box(4, 4, points=8), holes=[circle(0.5, points=8)])
        make = lambda: tdgl.Polygon("bad", points=pts)
    elif cls == "device":
        g = zoo.geometry("G2")
        film, holes, terms, probes = g["film"], g["holes"], list(g["terminals"]), g["probe_points"]
        lay = zoo.make_layer()
        if var == "duplicate_terminals":
            terms = [terms[0], terms[1].copy().set_name(terms[0].name)]
        elif var == "unnamed_terminal":
            terms = [terms[0], terms[1].copy().set_name(None)]
        elif var == "duplicate_holes":
            holes = [holes[0], tdgl.Polygon(holes[0].name, points=circle(0.2, points=10, center=(-1.5, 0.8)))]
        elif var == "unnamed_film":
            film = film.copy().set_name(None)
        elif var == "probe_outside":
            probes = np.array([(-2.0, 0.3), (20.0, 0.0)])
        elif var == "probe_in_hole":
            probes = np.array([(-2.0, 0.3), (0.3, 0.2)])
        elif var == "probe_shape":
            probes = np.array([[(-2.0, 0.3, 0.0), (2.0, 0.1, 0.0)]])
        make = lambda: tdgl.Device("bad", layer=lay, film=film, holes=holes, terminals=terms, probe_points=probes)

    sandbox_before = env.fs_snapshot(".")
    tmp_before = env.fs_snapshot(tempfile.gettempdir())
    raised = None
    result = None
    with env.seeded_default_rng(case["rng"]):
        try:
            result = make()
        except Exception as exc:  # noqa: BLE001
            raised = exc
    etype = type(raised).__name__ if raised is not None else None
    raised = None
    gc.collect()
    sandbox_after = env.fs_snapshot(".")
    tmp_after = env.fs_snapshot(tempfile.gettempdir())
    sig = dict(cls=cls, variant=var, output=("none" if case["output"] is None else "path"))
    det = {"case": case, "exc": etype}
    if expect_accept:
        if etype is not None:
            res.violate("well-posed-control-rejected", **sig, detail=det)
        else:
            res.count("controls_accepted")
        res.nontrivial = True
        res.outcome = "control"
        return res
    if etype is None:
        res.violate("ill-posed-input-accepted", magnitude=m, **sig, detail=det)
    else:
        res.count("rejected")
    new_files = sorted(set(sandbox_after) - set(sandbox_before))
    changed = sorted(k for k in sandbox_before if sandbox_after.get(k) != sandbox_before[k])
    new_tmp = sorted(set(tmp_after) - set(tmp_before))
    if cls in ("seed", "history"):
        new_tmp = [t for t in new_tmp if not t.startswith("seed-")]
    if new_files or changed:
        res.violate("rejected-input-left-files", magnitude=m, accepted=(etype is None), **sig, detail=dict(det, new=new_files[:6], changed=changed[:6]))
    if new_tmp:
        res.violate("rejected-input-left-temp-files", magnitude=m, accepted=(etype is None), **sig, detail=dict(det, new=new_tmp[:6]))
    if env.open_h5_files():
        res.violate("rejected-input-left-file-open", **sig, detail=det)
    res.nontrivial = True
    res.outcome = f"{cls};{etype}"
    return res


def _variant(dev, terminals=None, extra_hole=False, rename_terminal=False, film_scale=None, hole_shift=0.0):
    """the same film / layer / mesh with a different set of holes or terminals"""
    import tdgl
    from tdgl.geometry import circle

    terms = [t.copy() for t in (dev.terminals if terminals is None else terminals)]
    holes = [h.copy() for h in dev.holes]
    if extra_hole:
        holes = holes + [tdgl.Polygon("zz_extra", points=circle(0.15, points=10, center=(0.35 + hole_shift, -0.45)))]
    if rename_terminal and terms:
        terms[-1] = terms[-1].set_name(terms[-1].name + "_x")
    film = dev.film.copy()
    if film_scale is not None:
        film = tdgl.Polygon(film.name, points=np.asarray(film.points) * film_scale)
    d = tdgl.Device(dev.name, layer=dev.layer.copy(), film=film, holes=holes, terminals=terms, probe_points=dev.probe_points,
                    length_units=dev.length_units)
    d.mesh = dev.mesh
    return d


def _renamed(dev):
    import tdgl

    d = tdgl.Device(dev.name + "-other", layer=dev.layer.copy(), film=dev.film.copy(), holes=[h.copy() for h in dev.holes],
                    terminals=[t.copy() for t in dev.terminals], probe_points=dev.probe_points, length_units=dev.length_units)
    d.mesh = dev.mesh
    return d
