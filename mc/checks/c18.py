"""C18 - polygon and device geometry operations mean what they say.

Program enumeration: every pair (and chain of three) of shapes from the geometry primitives under
{union, intersection, difference, +, -, *}; every transform of the alphabet in place and not;
every input form / orientation.  Membership is decided by an independent even-odd point-in-polygon
test on a fixed probe lattice with irrational offset (points within delta of an operand outline
removed).
"""
from __future__ import annotations

import itertools

import numpy as np

from ..core import CaseResult, case_key

ID = "C18"
LEVEL = "exploration"
RULE = (
    "construct: shapes x input forms {array CCW, array CW, closed, unclosed, LineString, LinearRing, shapely Polygon, tdgl Polygon}; "
    "binary: all ordered pairs of shapes x {union, intersection, difference, +, -, *} (other given as Polygon, array or shapely polygon); chains: all triples x all pairs of operations; "
    "transforms: rotate 7 angles x 4 origins, translate 4 vectors, scale 25 factor pairs, each in place and not; device: contains_points and copy/scale/rotate/translate. "
    "Non-trivial = the operands overlap partially / the transform is not the identity; distinct = the program."
)
ASSUMPTIONS = [
    "membership oracle: even-odd ray casting on the stored vertex arrays, evaluated on a 41 x 41 lattice with irrational offset; probes within 1e-6 of an operand (or mapped operand) outline are removed",
    "when a set operation raises, shapely's own result type decides whether raising was legitimate (empty, multi-part or holed results cannot be represented)",
]
TOLERANCES = {"area": 1e-9}


def bound(tier):
    return {
        "quick": "10 shapes: 80 constructions, 100 pairs x 6 operations x 3 operand forms, 6^3 chains x 9 operation pairs, 10 x 57 transforms x 2, 4 devices",
        "thorough": "14 shapes: all pairs x 6 operations x 3 forms, 14^3 chains x 36 operation pairs, 14 x 57 transforms x 2, 8 devices",
    }[tier]


def floors(tier):
    return {"distinct_nontrivial": 30, "count:programs": 3000, "count:probe_tests": 1_000_000}


def shape_table(tier):
    from tdgl.geometry import box, circle, ellipse

    t = {
        "boxA": box(2.0, 1.0, points=4),
        "boxB": box(1.0, 2.4, points=4, center=(0.6, 0.3)),
        "boxC": box(3.0, 0.5, points=4, center=(-0.4, -0.1), angle=20),
        "sq": box(1.2, points=4, center=(-0.5, 0.4)),
        "boxD": box(2.0, 1.0, points=101, center=(0.2, -0.2)),
        "circ": circle(0.9, points=32, center=(0.3, 0.1)),
        "circS": circle(0.35, points=16, center=(-0.2, 0.05)),
        "ell": ellipse(1.6, 0.6, points=24, angle=25),
        "ellB": ellipse(0.7, 1.3, points=20, center=(0.5, -0.3), angle=-15),
        "far": box(0.6, 0.6, points=4, center=(2.9, 2.7)),
    }
    if tier == "thorough":
        t.update(
            {
                "boxE": box(0.5, 3.0, points=40, center=(-0.9, 0.0), angle=-35),
                "circB": circle(1.5, points=60),
                "ellC": ellipse(2.2, 0.3, points=30, center=(0.0, 0.6), angle=70),
                "tri": np.array([(-1.0, -0.8), (1.3, -0.6), (0.1, 1.4)]),
            }
        )
    return t


BIN_OPS = ["union", "intersection", "difference", "+", "-", "*"]
SEM = {"union": "or", "+": "or", "intersection": "and", "*": "and", "difference": "diff", "-": "diff"}
ANGLES = [0, 30, 90, 180, -45, 360, 123.4]
ORIGINS = [(0.0, 0.0), (1.0, 2.0), "center", "centroid"]
TRANSL = [(0.0, 0.0), (1.5, 0.0), (-0.3, 2.2), (1e-3, -4.0)]
SCALES = [1, 2, 0.5, -1, -2]


def cases(tier, seed):
    names = list(shape_table(tier))
    out = []
    for n in names:
        out.append(dict(fam="construct", shape=n))
        out.append(dict(fam="transform", shape=n))
        out.append(dict(fam="magnitude", shape=n))
    for a in names:
        out.append(dict(fam="binary", a=a))
    chain_names = names[:6] if tier == "quick" else names
    for a in chain_names:
        for b in chain_names:
            out.append(dict(fam="chain", a=a, b=b, names=chain_names, full=(tier == "thorough")))
    # G1int / G2int: the probe points are given as integers (an integer-typed array / a list of int tuples)
    for d in ("G1", "G2", "G5", "G7", "G2b", "G1int", "G2int") if tier == "quick" else ("G1", "G2", "G3", "G4", "G5", "G6", "G7", "G2b", "G1int", "G2int"):
        out.append(dict(fam="device", dev=d))
    return out


# ---------------------------------------------------------------------------------------------
def lattice():
    g = np.linspace(-4.2, 4.2, 41)
    X, Y = np.meshgrid(g + 0.0137 * np.sqrt(2), g - 0.0091 * np.sqrt(3))
    return np.column_stack([X.ravel(), Y.ravel()])


def pip(points, poly):
    """even-odd rule; poly is an (n,2) closed or unclosed vertex array"""
    poly = np.asarray(poly, float)
    if not np.array_equal(poly[0], poly[-1]):
        poly = np.vstack([poly, poly[:1]])
    x, y = points[:, 0][:, None], points[:, 1][:, None]
    x0, y0 = poly[:-1, 0][None, :], poly[:-1, 1][None, :]
    x1, y1 = poly[1:, 0][None, :], poly[1:, 1][None, :]
    cond = (y0 > y) != (y1 > y)
    with np.errstate(divide="ignore", invalid="ignore"):
        xint = x0 + (y - y0) * (x1 - x0) / (y1 - y0)
    return (np.sum(cond & (x < xint), axis=1) % 2).astype(bool)


def signed_area(pts):
    p = np.asarray(pts, float)
    p = p - p[0]  # shoelace about a vertex: no cancellation for shapes far from the origin
    return 0.5 * float(np.sum(p[:-1, 0] * p[1:, 1] - p[1:, 0] * p[:-1, 1]))


def near_outline(points, polys, delta=1e-6):
    import shapely
    from shapely.geometry import LinearRing

    pts = shapely.points(points)
    bad = np.zeros(len(points), bool)
    for p in polys:
        ring = LinearRing(np.asarray(p))
        bad |= shapely.distance(pts, ring) < delta
    return bad


def check_stored(res, poly, what, detail):
    pts = poly.points
    ok = True
    if not np.array_equal(pts[0], pts[-1]):
        res.violate("vertices-not-closed", after=what, detail=detail)
        ok = False
    if signed_area(pts) <= 0:
        res.violate("vertices-not-counterclockwise", after=what, detail=detail)
        ok = False
    return ok


# ---------------------------------------------------------------------------------------------
def run_construct(case):
    import tdgl
    from shapely.geometry import LinearRing, LineString, Polygon as SPoly

    res = CaseResult()
    res.key = case_key(case)
    base = np.asarray(shape_table("thorough")[case["shape"]], float)
    ccw = base if signed_area(np.vstack([base, base[:1]])) > 0 else base[::-1]
    forms = {
        "ccw": ccw,
        "cw": ccw[::-1],
        "closed": np.vstack([ccw, ccw[:1]]),
        "cw-closed": np.vstack([ccw[::-1], ccw[::-1][:1]]),
        "linestring": LineString(ccw[::-1]),
        "ring": LinearRing(ccw),
        "shapely": SPoly(ccw[::-1]),
        "polygon": tdgl.Polygon("p", points=ccw[::-1]),
    }
    probes = lattice()
    keep = ~near_outline(probes, [ccw])
    want = pip(probes[keep], ccw)
    area = abs(signed_area(np.vstack([ccw, ccw[:1]])))
    for fname, f in forms.items():
        src = f.copy() if isinstance(f, np.ndarray) else None
        p = tdgl.Polygon("q", points=f)
        res.count("programs")
        check_stored(res, p, f"construct:{fname}", {"shape": case["shape"]})
        if abs(p.area - area) > TOLERANCES["area"] * area:
            res.violate("area-changed-by-construction", form=fname, detail={"shape": case["shape"]})
        got = p.contains_points(probes[keep])
        res.count("probe_tests", keep.sum())
        if not np.array_equal(got, want):
            res.violate("membership-differs-after-construction", form=fname, detail={"shape": case["shape"], "n": int((got != want).sum())})
        if src is not None and not np.array_equal(src, f):
            res.violate("input-array-mutated", form=fname)
        if isinstance(f, np.ndarray) and np.shares_memory(p.points, f):
            res.violate("stored-points-alias-input", form=fname)
        # the setter
        p2 = tdgl.Polygon("r", points=ccw * 0.5 + 3.0)
        p2.contains_points(probes[:7])  # queried, then re-assigned
        p2.points = f
        check_stored(res, p2, f"setter:{fname}", {"shape": case["shape"]})
        if not np.array_equal(p2.contains_points(probes[keep]), want):
            res.violate("membership-stale-after-points-assignment", form=fname, detail={"shape": case["shape"]})
        if abs(p2.area - area) > TOLERANCES["area"] * area:
            res.violate("area-stale-after-points-assignment", form=fname)
    # a sequence of short-lived polygons with one vertex count and changing geometry (objects re-created at recycled addresses)
    import gc

    for it in range(24):
        fac, sh = 1.0 + 0.05 * it, np.array([0.11 * it, -0.07 * it])
        verts = ccw * fac + sh
        q = tdgl.Polygon("s", points=verts)
        keep_i = ~near_outline(probes, [verts])
        got = q.contains_points(probes[keep_i])
        res.count("probe_tests", int(keep_i.sum()))
        bad_i = not np.array_equal(got, pip(probes[keep_i], verts)) or abs(q.area - area * fac * fac) > 1e-9 * area * fac * fac
        del q
        gc.collect()
        if bad_i:
            res.violate("short-lived-polygon-answers-for-another-polygon", detail={"shape": case["shape"], "iteration": it})
            break
    res.nontrivial = True
    res.outcome = "construct"
    return res


def _apply(a, op, other):
    if op in ("union", "intersection", "difference"):
        return getattr(a, op)(other)
    if op == "+":
        return a + other
    if op == "-":
        return a - other
    return a * other


def _combine(sem, ma, mb):
    return {"or": ma | mb, "and": ma & mb, "diff": ma & ~mb}[sem]


def _shapely_verdict(sem, pa, pb):
    from shapely.geometry import Polygon as SPoly

    A, B = SPoly(pa), SPoly(pb)
    r = {"or": A.union, "and": A.intersection, "diff": A.difference}[sem](B)
    if r.is_empty:
        return "empty"
    if r.area < 1e-9:
        return "degenerate"  # numerical sliver of an exactly empty result: nothing is required of it
    if r.geom_type != "Polygon":
        return "multi"
    if len(r.interiors):
        return "holed"
    return "simple"


def run_binary(case):
    import tdgl
    from shapely.geometry import Polygon as SPoly

    res = CaseResult()
    res.key = case_key(case)
    table = shape_table("thorough" if case["a"] not in shape_table("quick") else "quick")
    probes = lattice()
    A = tdgl.Polygon("A", points=table[case["a"]])
    for bn, braw in table.items():
        B = tdgl.Polygon("B", points=braw)
        keep = ~near_outline(probes, [A.points, B.points])
        pk = probes[keep]
        ma, mb = pip(pk, A.points), pip(pk, B.points)
        partial = bool((ma & mb).any() and (ma & ~mb).any())
        for op in BIN_OPS:
            sem = SEM[op]
            verdict = _shapely_verdict(sem, A.points, B.points)
            for form in ("polygon", "array", "shapely"):
                other = {"polygon": B, "array": B.points.copy(), "shapely": SPoly(B.points)}[form]
                a0, b0 = A.points.copy(), B.points.copy()
                res.count("programs")
                try:
                    R = _apply(A, op, other)
                    raised = None
                except ValueError as exc:
                    R, raised = None, exc
                if verdict == "degenerate":
                    continue
                if raised is not None:
                    if verdict == "simple":
                        res.violate("operation-raises-on-representable-result", op=op, form=form, detail={"a": case["a"], "b": bn, "msg": str(raised)[:150]})
                    continue
                if verdict != "simple":
                    res.violate("unrepresentable-result-returned", op=op, verdict=verdict, detail={"a": case["a"], "b": bn})
                    continue
                check_stored(res, R, f"binary:{op}", {"a": case["a"], "b": bn})
                got = R.contains_points(pk)
                got2 = pip(pk, R.points)
                want = _combine(sem, ma, mb)
                # probes near the *result* outline that is not an operand outline cannot exist (result outline is a subset)
                res.count("probe_tests", len(pk))
                if not np.array_equal(got, want) or not np.array_equal(got2, want):
                    res.violate("membership-is-not-the-set-operation", op=op, form=form, partial_overlap=partial,
                                detail={"a": case["a"], "b": bn, "n_wrong": int((got != want).sum())})
                if not (np.array_equal(A.points, a0) and np.array_equal(B.points, b0)):
                    res.violate("operand-mutated", op=op)
                if np.shares_memory(R.points, A.points) or np.shares_memory(R.points, B.points):
                    res.violate("result-aliases-operand", op=op)
                if R is A:
                    res.violate("result-is-operand-object", op=op)
        if partial:
            res.nontrivial = True
    # chains of length zero: film.difference(*cutouts) with an empty list of cutouts is the polygon itself - as a *new* object
    for meth in ("union", "intersection", "difference"):
        a0 = A.points.copy()
        res.count("programs")
        try:
            R = getattr(A, meth)()
        except Exception as exc:  # noqa: BLE001
            res.violate("operation-raises-on-representable-result", op=meth + "()", form="no-operands", detail={"a": case["a"], "msg": str(exc)[:150]})
            continue
        if R is A or np.shares_memory(R.points, A.points):
            res.violate("result-aliases-operand", op=meth + "()")
            continue
        if not np.array_equal(pip(probes, R.points), pip(probes, a0)):
            res.violate("membership-is-not-the-set-operation", op=meth + "()", form="no-operands", partial_overlap=False, detail={"a": case["a"]})
        R.translate(dx=0.7, dy=-0.3, inplace=True)
        R.name = "moved"
        if not np.array_equal(A.points, a0) or A.name != "A":
            res.violate("operand-mutated", op=meth + "()")
    res.outcome = "binary"
    return res


def run_chain(case):
    import tdgl

    res = CaseResult()
    res.key = case_key(case)
    table = shape_table("thorough" if case["full"] else "quick")
    probes = lattice()
    A = tdgl.Polygon("A", points=table[case["a"]])
    B = tdgl.Polygon("B", points=table[case["b"]])
    ops = BIN_OPS if case["full"] else ["union", "intersection", "difference"]
    for cn in case["names"]:
        C = tdgl.Polygon("C", points=table[cn])
        keep = ~near_outline(probes, [A.points, B.points, C.points])
        pk = probes[keep]
        ma, mb, mc = pip(pk, A.points), pip(pk, B.points), pip(pk, C.points)
        for o1, o2 in itertools.product(ops, repeat=2):
            res.count("programs")
            v1 = _shapely_verdict(SEM[o1], A.points, B.points)
            if v1 == "degenerate":
                continue
            try:
                R1 = _apply(A, o1, B)
            except ValueError:
                if v1 == "simple":
                    res.violate("operation-raises-on-representable-result", op=o1, form="polygon", detail={"a": case["a"], "b": case["b"]})
                continue
            if v1 != "simple":
                res.violate("unrepresentable-result-returned", op=o1, verdict=v1)
                continue
            v2 = _shapely_verdict(SEM[o2], R1.points, C.points)
            if v2 == "degenerate":
                continue
            # probes near the intermediate outline are already removed (it is made of operand outlines)
            try:
                R2 = _apply(R1, o2, C)
            except ValueError:
                if v2 == "simple":
                    res.violate("operation-raises-on-representable-result", op=o2, form="chain", detail={"a": case["a"], "b": case["b"], "c": cn, "o1": o1})
                continue
            if v2 != "simple":
                res.violate("unrepresentable-result-returned", op=o2, verdict=v2)
                continue
            check_stored(res, R2, f"chain:{o1},{o2}", {"a": case["a"], "b": case["b"], "c": cn})
            want = _combine(SEM[o2], _combine(SEM[o1], ma, mb), mc)
            got = R2.contains_points(pk)
            res.count("probe_tests", len(pk))
            if not np.array_equal(got, want):
                res.violate("membership-is-not-the-set-operation", op=f"{o1},{o2}", form="chain", partial_overlap=True,
                            detail={"a": case["a"], "b": case["b"], "c": cn, "n_wrong": int((got != want).sum())})
            res.nontrivial = True
        # variadic forms and the class-method constructors = folds of the binary operation
        for opn, fold in (("union", ma | mb | mc), ("intersection", ma & mb & mc), ("difference", ma & ~mb & ~mc)):
            for how in ("method", "classmethod", "classmethod-arrays"):
                a0, b0, c0 = A.points.copy(), B.points.copy(), C.points.copy()
                try:
                    if how == "method":
                        Rv = getattr(A, opn)(B, C, name="combo")
                    elif how == "classmethod":
                        Rv = getattr(tdgl.Polygon, "from_" + opn)([A, B, C], name="combo")
                    else:
                        Rv = getattr(tdgl.Polygon, "from_" + opn)([A.points.copy(), B.points.copy(), C.points.copy()], name="combo", mesh=False)
                except ValueError:
                    continue  # representability of the intermediate results is decided by the binary checks above
                res.count("programs")
                if Rv.area < 1e-9:
                    continue  # numerical sliver of an exactly empty result: not decided
                if not np.array_equal(Rv.contains_points(pk), fold):
                    res.violate("membership-is-not-the-set-operation", op=f"{opn}(*3)", form=how, partial_overlap=True, detail={"a": case["a"], "b": case["b"], "c": cn})
                if Rv.name != "combo" or (how == "classmethod-arrays" and Rv.mesh is not False):
                    res.violate("combined-polygon-attributes", op=opn, form=how, detail={"name": Rv.name, "mesh": Rv.mesh})
                if not (np.array_equal(A.points, a0) and np.array_equal(B.points, b0) and np.array_equal(C.points, c0)):
                    res.violate("operand-mutated", op=f"{opn}(*3)")
                check_stored(res, Rv, f"variadic:{opn}", {"a": case["a"], "b": case["b"], "c": cn})
    res.outcome = "chain"
    return res


def _affine(kind, par, pts, poly):
    """independent implementation of the documented transforms acting on points"""
    pts = np.asarray(pts, float)
    if kind == "translate":
        return pts + np.array(par)
    origin = par[-1]
    if origin == "center":
        mn, mx = poly[:, 0].min(), poly[:, 0].max()
        o = np.array([(mn + mx) / 2, (poly[:, 1].min() + poly[:, 1].max()) / 2])
    elif origin == "centroid":
        from shapely.geometry import Polygon as SPoly

        c = SPoly(poly).centroid
        o = np.array([c.x, c.y])
    else:
        o = np.array(origin, float)
    if kind == "rotate":
        th = np.radians(par[0])
        R = np.array([[np.cos(th), -np.sin(th)], [np.sin(th), np.cos(th)]])
        return (pts - o) @ R.T + o
    fx, fy = par[0], par[1]
    return (pts - o) * np.array([fx, fy]) + o


def run_transform(case):
    import tdgl

    res = CaseResult()
    res.key = case_key(case)
    raw = np.asarray(shape_table("thorough")[case["shape"]], float)
    probes = lattice()
    progs = []
    for ang, org in itertools.product(ANGLES, ORIGINS):
        progs.append(("rotate", (ang, org)))
    for v in TRANSL:
        progs.append(("translate", v))
    for fx, fy in itertools.product(SCALES, SCALES):
        progs.append(("scale", (fx, fy, (0.3, -0.2))))
    for org in ("center", "centroid"):
        progs.append(("scale", (-1, 2, org)))
    for kind, par in progs:
        for inplace in (False, True):
            P = tdgl.Polygon("P", points=raw)
            p0 = P.points.copy()
            area0 = P.area
            # the object has a history: it was queried before being transformed
            P.contains_points(probes[:7])
            P.on_boundary(probes[:7])
            _ = P.bbox, P.extents, P.is_valid
            res.count("programs")
            if kind == "rotate":
                R = P.rotate(par[0], origin=par[1], inplace=inplace)
                fac = 1.0
            elif kind == "translate":
                R = P.translate(dx=par[0], dy=par[1], inplace=inplace)
                fac = 1.0
            else:
                R = P.scale(xfact=par[0], yfact=par[1], origin=par[2], inplace=inplace)
                fac = abs(par[0] * par[1])
            detail = {"shape": case["shape"], "kind": kind, "par": par, "inplace": inplace}
            if inplace:
                if R is not P:
                    res.violate("inplace-does-not-return-self", kind=kind, detail=detail)
            else:
                if R is P:
                    res.violate("non-inplace-returns-self", kind=kind, detail=detail)
                if not np.array_equal(P.points, p0):
                    res.violate("original-mutated-by-non-inplace-call", kind=kind, detail=detail)
                if np.shares_memory(R.points, P.points):
                    res.violate("result-aliases-original", kind=kind, detail=detail)
                if R.name != P.name or R.mesh != P.mesh:
                    res.violate("copy-loses-attributes", kind=kind, detail=detail)
            check_stored(res, R, f"{kind}", detail)
            if abs(R.area - fac * area0) > TOLERANCES["area"] * max(area0, fac * area0):
                res.violate("area-law", kind=kind, reflection=bool(kind == "scale" and par[0] * par[1] < 0), detail=dict(detail, area0=area0, area=R.area, factor=fac))
            # T(p) in T(P) <=> p in P
            keep = ~near_outline(probes, [p0])
            pk = probes[keep]
            inside = pip(pk, p0)
            mapped = _affine(kind, par, pk, p0[:-1])
            keep2 = ~near_outline(mapped, [R.points])
            got = R.contains_points(mapped[keep2])
            res.count("probe_tests", int(keep2.sum()))
            if not np.array_equal(got, inside[keep2]):
                res.violate("points-do-not-map-with-the-shape", kind=kind, origin=str(par[-1]) if kind != "translate" else "-",
                            reflection=bool(kind == "scale" and par[0] * par[1] < 0), detail=dict(detail, n_wrong=int((got != inside[keep2]).sum())))
            if not (kind == "translate" and par == (0.0, 0.0)) and not (kind == "rotate" and par[0] in (0, 360)) and not (kind == "scale" and par[:2] == (1, 1)):
                res.nontrivial = True
    # documented defaults: calls that leave arguments out are not in place, use the origin (0, 0), zero shifts and unit factors
    for label, call, full in (
        ("rotate(30)", lambda Q: Q.rotate(30), lambda Q: Q.rotate(30, origin=(0.0, 0.0), inplace=False)),
        ("translate(dx)", lambda Q: Q.translate(dx=1.5), lambda Q: Q.translate(dx=1.5, dy=0.0, inplace=False)),
        ("translate(dy)", lambda Q: Q.translate(dy=-0.7), lambda Q: Q.translate(dx=0.0, dy=-0.7, inplace=False)),
        ("scale(xfact)", lambda Q: Q.scale(xfact=2), lambda Q: Q.scale(xfact=2, yfact=1, origin=(0, 0), inplace=False)),
        ("scale(yfact)", lambda Q: Q.scale(yfact=-1.5), lambda Q: Q.scale(xfact=1, yfact=-1.5, origin=(0, 0), inplace=False)),
    ):
        P = tdgl.Polygon("P", points=raw)
        p0 = P.points.copy()
        R = call(P)
        res.count("programs")
        W = full(tdgl.Polygon("P", points=raw))
        if R is P or not np.array_equal(P.points, p0):
            res.violate("default-call-is-in-place", kind=label, detail={"shape": case["shape"]})
        elif not np.allclose(R.points, W.points, rtol=0, atol=1e-12):
            res.violate("default-arguments-differ-from-documented", kind=label, detail={"shape": case["shape"]})
    # copy
    P = tdgl.Polygon("P", points=raw, mesh=False)
    C = P.copy()
    if C is P or np.shares_memory(C.points, P.points) or not np.array_equal(C.points, P.points) or C.name != "P" or C.mesh is not False:
        res.violate("copy-is-not-an-independent-equal-object")
    res.outcome = "transform"
    return res


# placements spanning many orders of magnitude: (scale, centre offset)
PLACEMENTS = [(1.0, (3e5, 3e5)), (1.0, (1e4, -5e3)), (1.0, (-7e6, 2.5)), (2e-9, (0.0, 0.0)), (3e-7, (1e-3, -2e-3)), (1e6, (0.0, 0.0)), (1e3, (-4e7, 9e7))]


def run_magnitude(case):
    """The same shapes far from the origin and at tiny / huge absolute scale: construction, set operations with a
    second shape placed the same way, and the transforms that take an ordinary shape there."""
    import tdgl

    res = CaseResult()
    res.key = case_key(case)
    table = shape_table("thorough")
    raw = np.asarray(table[case["shape"]], float)
    other = np.asarray(table["boxB" if case["shape"] != "boxB" else "circ"], float)
    lat = lattice()
    for sc, off in PLACEMENTS:
        off = np.asarray(off, float)
        place = lambda a: np.asarray(a, float) * sc + off  # noqa: E731
        detail = {"shape": case["shape"], "scale": sc, "offset": list(off)}
        for fname, arr in (("ccw", raw), ("cw", raw[::-1])):
            src = place(arr)
            P = tdgl.Polygon("P", points=src)
            res.count("programs")
            check_stored(res, P, f"placed:{fname}", detail)
            verts = src if signed_area(np.vstack([src, src[:1]])) > 0 else src[::-1]
            area = abs(signed_area(np.vstack([verts, verts[:1]])))
            if abs(P.area - area) > 1e-6 * area:
                res.violate("area-changed-by-construction", form=f"placed:{fname}", detail=detail)
            # every distinct input vertex is still a stored vertex
            stored = {tuple(v) for v in P.points}
            if not {tuple(v) for v in src} <= stored:
                res.violate("vertex-lost-on-construction", form=f"placed:{fname}", detail=detail)
            probes = place(lat)
            keep = ~near_outline(probes, [verts], delta=1e-6 * sc + 1e-9 * float(np.abs(off).max()))
            want = pip(probes[keep], verts)
            got = P.contains_points(probes[keep])
            res.count("probe_tests", int(keep.sum()))
            if not np.array_equal(got, want):
                res.violate("membership-differs-after-construction", form=f"placed:{fname}", detail=dict(detail, n=int((got != want).sum())))
        # set operations between two shapes placed the same way
        A = tdgl.Polygon("A", points=place(raw))
        B = tdgl.Polygon("B", points=place(other))
        probes = place(lat)
        keep = ~near_outline(probes, [A.points, B.points], delta=1e-6 * sc + 1e-9 * float(np.abs(off).max()))
        ina, inb = pip(probes[keep], place(raw)), pip(probes[keep], place(other))
        for op, sem in (("union", ina | inb), ("intersection", ina & inb), ("difference", ina & ~inb)):
            res.count("programs")
            try:
                R = getattr(A, op)(B)
            except Exception:  # noqa: BLE001  (multi-part / empty results are judged in the binary family)
                continue
            check_stored(res, R, f"placed:{op}", detail)
            got = R.contains_points(probes[keep])
            res.count("probe_tests", int(keep.sum()))
            if not np.array_equal(got, sem):
                res.violate("set-operation-differs-from-pointwise", op=op, operand="placed", detail=dict(detail, n=int((got != sem).sum())))
        # transforms that carry an ordinary shape to this placement
        for inplace in (False, True):
            Q = tdgl.Polygon("Q", points=raw)
            Q.contains_points(lat[:5])
            R = Q.scale(xfact=sc, yfact=sc, origin=(0.0, 0.0), inplace=inplace)
            R = R.translate(dx=off[0], dy=off[1], inplace=inplace)
            res.count("programs")
            check_stored(res, R, "placed:scale+translate", dict(detail, inplace=inplace))
            keep = ~near_outline(probes, [place(raw)], delta=1e-6 * sc + 1e-9 * float(np.abs(off).max()))
            got = R.contains_points(probes[keep])
            res.count("probe_tests", int(keep.sum()))
            if not np.array_equal(got, pip(lat[keep], raw)):
                res.violate("points-do-not-map-with-the-shape", kind="scale+translate", origin="-", reflection=False, detail=dict(detail, inplace=inplace))
        res.nontrivial = True
    res.outcome = "magnitude"
    return res


def run_device(case):
    import tdgl

    from .. import zoo

    res = CaseResult()
    res.key = case_key(case)
    name = case["dev"]
    if name == "G2b":  # two holes
        g = zoo.geometry("G2")
        from tdgl.geometry import box

        dev = tdgl.Device("two", layer=zoo.make_layer(), film=g["film"], holes=[g["holes"][0], tdgl.Polygon("h2", points=box(0.8, 0.6, points=12, center=(-1.8, -0.9)))],
                          terminals=g["terminals"], probe_points=g["probe_points"])
    elif name in ("G1int", "G2int"):
        g = zoo.geometry(name[:2])
        pp = np.array([[-2, 1], [2, -1], [1, 1]]) if name == "G1int" else [(-2, -1), (2, 1)]
        dev = tdgl.Device("ints", layer=zoo.make_layer(), film=g["film"], holes=g["holes"], terminals=g["terminals"], probe_points=pp)
    else:
        dev = zoo.device(name, mesh=False, memo=False)
    probes = lattice()
    outlines = [dev.film.points] + [h.points for h in dev.holes]
    keep = ~near_outline(probes, outlines)
    pk = probes[keep]
    want = pip(pk, dev.film.points)
    for h in dev.holes:
        want &= ~pip(pk, h.points)
    got = dev.contains_points(pk)
    res.count("programs")
    res.count("probe_tests", len(pk))
    if not np.array_equal(got, want):
        res.violate("device-membership-is-not-film-minus-holes", n_holes=len(dev.holes), detail={"dev": name, "n_wrong": int((got != want).sum())})
    idx = dev.contains_points(pk, index=True)
    if not np.array_equal(idx, np.where(want)[0]):
        res.violate("device-membership-index-form", detail={"dev": name})
    # the same probe buffer queried again after it was updated in place (the answer belongs to the points as they are now),
    # and the buffer itself is never modified by a query
    buf = pk.copy()
    for shift in ((0.37, -0.21), (-0.9, 0.55)):
        buf += np.array(shift)
        keep2 = ~near_outline(buf, outlines)
        want2 = pip(buf, dev.film.points)
        for h in dev.holes:
            want2 &= ~pip(buf, h.points)
        before = buf.copy()
        got2 = dev.contains_points(buf)
        gotf = dev.film.contains_points(buf)
        res.count("probe_tests", int(keep2.sum()))
        if not np.array_equal(buf, before):
            res.violate("query-modifies-the-probe-points", detail={"dev": name})
            break
        if not np.array_equal(got2[keep2], want2[keep2]) or not np.array_equal(gotf[keep2], pip(buf, dev.film.points)[keep2]):
            res.violate("membership-stale-after-probe-buffer-updated-in-place", n_holes=len(dev.holes), detail={"dev": name})
            break

    def snapshot(d):
        return (d.film.points.copy(), [h.points.copy() for h in d.holes], [t.points.copy() for t in d.terminals],
                None if d.probe_points is None else d.probe_points.copy(), d.layer.z0)

    def same_snapshot(a, b):
        return (np.array_equal(a[0], b[0]) and all(np.array_equal(x, y) for x, y in zip(a[1], b[1])) and all(np.array_equal(x, y) for x, y in zip(a[2], b[2]))
                and ((a[3] is None and b[3] is None) or np.array_equal(a[3], b[3])) and a[4] == b[4])

    snap = snapshot(dev)
    th = np.deg2rad(33.0)
    Rm = np.array([[np.cos(th), -np.sin(th)], [np.sin(th), np.cos(th)]])
    maps = {
        "copy": lambda q: np.asarray(q, float),
        "scale": lambda q: np.array([0.2, 0.1]) + (np.asarray(q, float) - np.array([0.2, 0.1])) * np.array([-1.5, 2.0]),
        "scale_small": lambda q: np.asarray(q, float) * np.array([0.3, 0.3]),
        "rotate": lambda q: np.array([0.5, -0.5]) + (np.asarray(q, float) - np.array([0.5, -0.5])) @ Rm.T,
        "translate": lambda q: np.asarray(q, float) + np.array([1.2, -0.7]),
    }
    for label, f in (
        ("copy", lambda: dev.copy()),
        ("scale", lambda: dev.scale(xfact=-1.5, yfact=2.0, origin=(0.2, 0.1))),
        ("scale_small", lambda: dev.scale(xfact=0.3, yfact=0.3)),
        ("rotate", lambda: dev.rotate(33.0, origin=(0.5, -0.5))),
        ("translate", lambda: dev.translate(dx=1.2, dy=-0.7, dz=0.4)),
    ):
        new = f()
        res.count("programs")
        # points map consistently with the shapes: the film outline and the probe points of the new device are the images of the old ones
        want_film = maps[label](snap[0])
        if new.film.points.shape != want_film.shape or np.abs(np.sort(new.film.points, axis=0) - np.sort(want_film, axis=0)).max() > 1e-9:
            res.violate("transformed-device-film-is-not-the-image-of-the-film", op=label, detail={"dev": name})
        if snap[3] is not None:
            want_pp = maps[label](snap[3])
            got_pp = None if new.probe_points is None else np.asarray(new.probe_points, float)
            if got_pp is None or got_pp.shape != want_pp.shape or np.abs(got_pp - want_pp).max() > 1e-9:
                res.violate("transformed-device-probe-points-are-not-the-images-of-the-probe-points", op=label, integer_probe_points=bool(name.endswith("int")),
                            detail={"dev": name, "max_abs": None if got_pp is None or got_pp.shape != want_pp.shape else float(np.abs(got_pp - want_pp).max())})
        if not same_snapshot(snap, snapshot(dev)):
            res.violate("device-operation-mutates-source", op=label, detail={"dev": name})
            break
        # membership of the new device follows its own (transformed) polygons
        n_out = [new.film.points] + [h.points for h in new.holes]
        kp = ~near_outline(probes, n_out)
        wantn = pip(probes[kp], new.film.points)
        for h in new.holes:
            wantn &= ~pip(probes[kp], h.points)
        res.count("probe_tests", int(kp.sum()))
        if not np.array_equal(new.contains_points(probes[kp]), wantn):
            res.violate("transformed-device-membership-does-not-follow-its-polygons", op=label, has_probe_points=bool(dev.probe_points is not None),
                        detail={"dev": name})
        if new.probe_points is not None and not new.contains_points(new.probe_points).all():
            res.violate("transformed-device-does-not-contain-its-probe-points", op=label, detail={"dev": name})
        for t_old, t_new in zip(dev.terminals, new.terminals):
            if label != "copy" and np.array_equal(t_old.points, t_new.points):
                res.violate("terminal-not-transformed-with-device", op=label)
        if new is dev:
            res.violate("device-operation-returns-self", op=label)
        shared = [np.shares_memory(a.points, b.points) for a, b in zip(new.polygons, dev.polygons)]
        if any(shared):
            res.violate("device-copy-aliases-polygons", op=label)
        # modifying the new device must not reach the source
        new.film.translate(dx=5.0, inplace=True)
        if new.probe_points is not None:
            new.probe_points += 1
        new.layer.z0 += 1.0
        if not same_snapshot(snap, snapshot(dev)):
            res.violate("device-copy-shares-state-with-source", op=label, detail={"dev": name})
            break
    # in-place translation context manager restores the device
    with dev.translation(0.7, -0.3, dz=0.2):
        shifted = [dev.film.points] + [h.points for h in dev.holes]
        kp = ~near_outline(probes, shifted)
        wants = pip(probes[kp], dev.film.points)
        for h in dev.holes:
            wants &= ~pip(probes[kp], h.points)
        if not np.array_equal(dev.contains_points(probes[kp]), wants):
            res.violate("membership-inside-translation-context", detail={"dev": name})
        if np.abs(dev.film.points - (snap[0] + np.array([0.7, -0.3]))).max() > 1e-12:
            res.violate("translation-context-does-not-translate")
    got_after = dev.contains_points(pk)
    if not np.array_equal(got_after, want):
        res.violate("membership-after-translation-context", detail={"dev": name})
    after = snapshot(dev)
    if not (np.allclose(after[0], snap[0], atol=1e-12) and after[4] == snap[4] or abs(after[4] - snap[4]) < 1e-12):
        res.violate("translation-context-does-not-restore")
    res.nontrivial = True
    res.outcome = "device"
    return res


def run_case(case):
    return {"construct": run_construct, "binary": run_binary, "chain": run_chain, "transform": run_transform, "magnitude": run_magnitude, "device": run_device}[case["fam"]](case)
