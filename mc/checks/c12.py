"""C12 - time steps follow the documented adaptive rule and its bounds.

E3: the real TDGLSolver.update is called in a loop; the environment owns solve_for_psi_squared
(instance attribute), so the refusal count r_n and the |psi|^2 change d_n of every step are
scripted inputs.  RM-adaptive (below) is the documented rule of docs/background.rst.
A second family runs the unpatched solver under drives that cause genuine refusals and checks the
recorded dt column against the rule using the recorded frames.
"""
from __future__ import annotations

import itertools

import numpy as np

from ..core import CaseResult, case_key

ID = "C12"
LEVEL = "model_checking"
RULE = (
    "settings alphabet (dt_init, dt_max, window, multiplier, max retries, adaptive) x scripts of (refusal count, |psi|^2 change) "
    "per step over window+5 steps, all scripts with <= D deviations from (r=0, d=1e-3); r in 0..max+2, d in {0, 1e-12, 1e-3, 0.5}. "
    "Non-trivial = script has a deviation or a refusal; distinct = (setting, script)."
)
STATE_DEF = "(step > window, refusals so far in step, proposal class: init / grown / clipped) at each attempt"
ASSUMPTIONS = [
    "the environment replaces solve_for_psi_squared on the solver instance; everything else in update() is real",
    "delta_n is computed by the model from the arrays it handed out, with the same float operations the documentation defines",
]
TOLERANCES = {"dt_rel": 1e-12}
D_ALPH = [0.0, 1e-12, 1e-3, 0.5]


def bound(tier):
    return {
        "quick": "36 adaptive settings (incl. dt_init = dt_max) + 6 non-adaptive, scripts with <= 1 deviation over window+5 steps; real-drive family: 5 runs (field and current drives)",
        "thorough": "144 adaptive settings + 12 non-adaptive, scripts with <= 2 deviations over window+6 steps; real-drive family: 12 runs",
    }[tier]


def floors(tier):
    return {"distinct_nontrivial": 100, "outcomes": 3, "count:raised": 10, "count:retried": 10, "count:grew": 10}


def settings(tier):
    out = []
    if tier == "quick":
        pairs, wins, mults, maxr = [(1e-4, 1e-1), (1e-2, 5e-2), (1e-3, 1e-3)], [1, 3], [0.25, 0.9], [0, 1, 3]
    else:
        pairs, wins, mults, maxr = [(1e-4, 1e-1), (1e-3, 1e-3), (1e-2, 5e-2)], [1, 2, 3, 10], [0.25, 0.5, 0.9], [0, 1, 3, 10]
    for (di, dm), w, m, r in itertools.product(pairs, wins, mults, maxr):
        out.append(dict(dt_init=di, dt_max=dm, window=w, mult=m, maxr=r, adaptive=True))
    for (di, dm), r in itertools.product(pairs, maxr[:2]):
        out.append(dict(dt_init=di, dt_max=dm, window=wins[0], mult=0.5, maxr=r, adaptive=False))
    return out


def cases(tier, seed):
    out = []
    maxdev = 1 if tier == "quick" else 2
    extra = 5 if tier == "quick" else 6
    for s in settings(tier):
        steps = s["window"] + extra
        out.append(dict(fam="script", setting=s, steps=steps, pos=[]))
        for nd in range(1, maxdev + 1):
            for pos in itertools.combinations(range(steps), nd):
                if nd == 2 and s["maxr"] == 10:
                    continue  # 13 x 13 alternatives per pair: covered by maxr <= 3 (same counter logic)
                out.append(dict(fam="script", setting=s, steps=steps, pos=list(pos)))
    if tier == "quick":
        reals = [("field", 0.25, 1), ("field", 0.5, 3), ("current", 0.25, 3), ("current", 0.5, 1), ("field", 0.25, 10)]
    else:
        reals = list(itertools.product(("field", "current"), (0.25, 0.5), (1, 3, 10)))
    for drive, mult, win in reals:
        out.append(dict(fam="real", drive=drive, mult=mult, window=win))
    # with screening (several inner iterations per step: the rule is about solve steps, not about inner iterations)
    for drive, win in (("field", 1), ("field", 3), ("gentle_current", 3)):
        out.append(dict(fam="real", drive=drive, mult=0.5, window=win, screening=True))
    for drive in ("field", "gentle_current"):
        out.append(dict(fam="real", drive=drive, mult=0.5, window=3, edit_after_build=True))
    # one SolverOptions object re-used for two solves and edited in between (the rule applies to the settings as they are now)
    for drive, how in itertools.product(("field", "gentle_current"), ("fixed_first", "larger_limits_first")):
        out.append(dict(fam="real", drive=drive, mult=0.5, window=3, reuse_options=how))
    # continuation runs: the seed ended with a time step far from this run's dt_init (grown to its own, larger dt_max); the rule of
    # *this* run starts from its own dt_init and honours its own bounds; with adaptivity off every step is dt_init
    for drive, how, win in itertools.product(("field", "gentle_current"), ("adaptive", "fixed"), (1, 3)):
        out.append(dict(fam="real", drive=drive, mult=0.5, window=win, seeded=how))
    # pinned terminal values other than 0: the windowed change must be that of the states actually visited
    for tp in ("0.5", "0.6+0.3j", "1", "None") if tier == "quick" else ("0.5", "0.6+0.3j", "1", "None", "1e-3", "0.9"):
        for win in (1, 3):
            out.append(dict(fam="real", drive="gentle_current", mult=0.5, window=win, terminal_psi=tp))
    return out


# ---------------------------------------------------------------------------------------------
def rm_adaptive_step(s, proposal, r):
    """attempt time steps and outcome of one step under the documented retry loop."""
    attempts = [proposal]
    if r == 0:
        return attempts, "ok"
    if not s["adaptive"]:
        return attempts, "raise"
    dt = proposal
    retries = 0
    refused = 1
    while True:
        if retries > s["maxr"]:
            return attempts, "raise"
        dt = dt * s["mult"]
        attempts.append(dt)
        retries += 1
        if refused >= r:
            return attempts, "ok"
        refused += 1


def rm_next_proposal(s, n, proposal, dt_used, deltas):
    """first-attempt time step of step n+1 (documented rule; unchanged during the warm-up window)."""
    if not s["adaptive"]:
        return s["dt_init"]
    if n > s["window"]:
        delta = float(np.mean(deltas[-s["window"] :]))
        cand = np.inf if delta == 0 else s["dt_init"] / delta
        return float(min(0.5 * (dt_used + cand), s["dt_max"]))
    return proposal


def alternatives(s):
    alts = []
    for r in range(1, s["maxr"] + 3):
        alts.append((r, 1e-3))
    for d in D_ALPH:
        if d != 1e-3:
            alts.append((0, d))
    return alts


def run_script_case(case):
    import tdgl
    from tdgl.solver.runner import RunningState

    from .. import drivers

    res = CaseResult()
    res.key = case_key(case)
    s = case["setting"]
    steps = case["steps"]
    dev = drivers.tiny(2)
    alts = alternatives(s)
    combos = list(itertools.product(range(len(alts)), repeat=len(case["pos"]))) if case["pos"] else [()]
    res.executions = 0
    for combo in combos:
        script = [(0, 1e-3)] * steps
        for p, a in zip(case["pos"], combo):
            script[p] = alts[a]
        opts = tdgl.SolverOptions(
            solve_time=1.0,
            dt_init=s["dt_init"],
            dt_max=s["dt_max"],
            adaptive=s["adaptive"],
            adaptive_window=s["window"],
            max_solve_retries=s["maxr"],
            adaptive_time_step_multiplier=s["mult"],
            progress_interval=10**9,
        )
        solver = tdgl.TDGLSolver(dev, opts)
        n_sites = len(dev.mesh.sites)
        env = {"refuse": 0, "d": 0.0, "attempts": [], "x": 0.5, "handed": None}

        def fake(**kw):
            env["attempts"].append(float(kw["dt"]))
            if env["refuse"] > 0:
                env["refuse"] -= 1
                return None
            old = np.abs(kw["psi"]) ** 2
            new_sq = old.copy()
            d = env["d"]
            new_sq[0] = old[0] + d if old[0] + d <= 0.95 else old[0] - d
            psi = np.sqrt(new_sq).astype(complex)
            env["handed"] = float(np.abs(new_sq - old).max())
            return psi, new_sq

        solver.solve_for_psi_squared = fake
        names = ["psi", "mu", "supercurrent", "normal_current", "induced_vector_potential"]
        ne = solver.num_edges
        vals = [np.sqrt(0.5) * np.ones(n_sites, complex), np.zeros(n_sites), np.zeros(ne), np.zeros(ne), np.zeros((ne, 2))]
        rs = RunningState({"dt": 1, "mu": 2, "theta": 2}, 1)
        proposal = s["dt_init"]
        deltas = []
        dt_prev = s["dt_init"]
        time = 0.0
        ended = "completed"
        for n in range(steps):
            r, d = script[n]
            env.update(refuse=r, d=d, attempts=[], handed=None)
            want_attempts, outcome = rm_adaptive_step(s, proposal, r)
            rs.clear()
            raised = None
            try:
                out = solver.update({"step": n, "time": time, "dt": dt_prev}, rs, dt_prev, **dict(zip(names, vals)))
            except RuntimeError as exc:
                raised = exc
            res.transitions += len(env["attempts"])
            grown = "init" if proposal == s["dt_init"] else ("clipped" if proposal == s["dt_max"] else "grown")
            for j in range(len(env["attempts"])):
                res.states.add(f"post-window={n > s['window']};refusals={min(j, 4)};proposal={grown};adaptive={s['adaptive']}")
            got = env["attempts"]
            ok_attempts = len(got) == len(want_attempts) and all(
                abs(g - w) <= TOLERANCES["dt_rel"] * w for g, w in zip(got, want_attempts)
            )
            if got and want_attempts:
                res.residual("dt_rel", abs(got[0] - want_attempts[0]) / want_attempts[0])
            if not ok_attempts:
                first_bad = next((j for j, (g, w) in enumerate(zip(got, want_attempts)) if abs(g - w) > TOLERANCES["dt_rel"] * w), None)
                res.violate(
                    "attempt-sequence",
                    where=("first-attempt" if first_bad == 0 else ("retry" if first_bad is not None else "count")),
                    post_window=bool(n > s["window"]),
                    adaptive=s["adaptive"],
                    detail={"setting": s, "script": script, "step": n, "expected": want_attempts, "observed": got},
                )
                ended = "mismatch"
                break
            if outcome == "raise":
                res.count("raised")
                if raised is None:
                    res.violate("no-error-after-exhausting-retries", adaptive=s["adaptive"], detail={"setting": s, "script": script, "step": n})
                ended = "raised"
                break
            if raised is not None:
                res.violate("unexpected-error", adaptive=s["adaptive"], detail={"setting": s, "script": script, "step": n, "msg": str(raised)[:200]})
                ended = "raised-unexpected"
                break
            if r:
                res.count("retried")
            dt_used, *vals = out
            dt_used = float(dt_used)
            if not (0 < dt_used <= s["dt_max"] * (1 + 1e-15)):
                res.violate("dt-out-of-bounds", detail={"dt": dt_used, "setting": s})
            if abs(dt_used - want_attempts[-1]) > TOLERANCES["dt_rel"] * want_attempts[-1]:
                res.violate("returned-dt-is-not-the-dt-used", detail={"returned": dt_used, "last_attempt": want_attempts[-1]})
            if not s["adaptive"] and dt_used != s["dt_init"]:
                res.violate("fixed-step-changed", detail={"dt": dt_used})
            rec = float(np.asarray(rs.values["dt"]).ravel()[0])
            if rec != dt_used:
                res.violate("recorded-dt-differs", detail={"recorded": rec, "used": dt_used})
            deltas.append(env["handed"])
            nxt = rm_next_proposal(s, n, proposal, dt_used, deltas)
            if nxt > proposal:
                res.count("grew")
            proposal = nxt
            dt_prev = dt_used
            time += dt_used
        res.executions += 1
    res.nontrivial = bool(case["pos"])
    res.outcome = f"adaptive={s['adaptive']};ndev={len(case['pos'])}"
    return res


def run_real_case(case):
    import tdgl

    from .. import drivers

    res = CaseResult()
    res.key = case_key(case)
    dev = drivers.tiny(2, terminals=(case["drive"] != "field"))
    if case["drive"] == "field":
        kw = {"applied_vector_potential": 1.8}
    elif case["drive"] == "current":
        kw = {"terminal_currents": {"source": 16.0, "drain": -16.0}, "applied_vector_potential": 0.4}
    else:
        kw = {"terminal_currents": {"source": 0.5, "drain": -0.5}, "applied_vector_potential": 0.2}
    gentle = case["drive"] == "gentle_current"
    s = dict(dt_init=(1e-3 if gentle else 0.1), dt_max=(0.2 if gentle else 0.6), window=case["window"], mult=case["mult"], maxr=12, adaptive=True)
    tp = {"None": None}.get(case.get("terminal_psi", "0"), None if case.get("terminal_psi") == "None" else complex(case.get("terminal_psi", "0")))
    if tp is not None and tp.imag == 0:
        tp = tp.real
    opts = tdgl.SolverOptions(
        solve_time=(1.0 if gentle else 6.0), dt_init=s["dt_init"], dt_max=s["dt_max"], adaptive=True, adaptive_window=s["window"],
        max_solve_retries=s["maxr"], adaptive_time_step_multiplier=s["mult"], save_every=1, output_file="out.h5",
        progress_interval=10**9, terminal_psi=tp, include_screening=bool(case.get("screening")), screening_tolerance=1e-3,
    )
    if case.get("reuse_options"):
        # one options object for two solves: the first with other time-step settings, edited in place before the checked run
        want = {f: getattr(opts, f) for f in ("adaptive", "dt_init", "dt_max", "adaptive_window", "adaptive_time_step_multiplier", "solve_time", "output_file")}
        if case["reuse_options"] == "fixed_first":
            opts.adaptive = False
            opts.dt_init = opts.dt_max = 1e-3
        else:
            opts.dt_max = 4 * s["dt_max"]
            opts.adaptive_window = s["window"] + 2
            opts.adaptive_time_step_multiplier = 0.9
        opts.solve_time, opts.output_file = 0.05, "first.h5"
        try:
            tdgl.solve(dev, opts, **kw)
        except RuntimeError:
            pass
        for f, v in want.items():
            setattr(opts, f, v)
    if case.get("seeded"):
        # the seed: an adaptive run of the same problem whose last steps are much longer than the dt_init of the checked run
        o1 = tdgl.SolverOptions(solve_time=(1.0 if gentle else 3.0), dt_init=s["dt_init"], dt_max=2 * s["dt_max"], adaptive=True, adaptive_window=2,
                                adaptive_time_step_multiplier=0.5, max_solve_retries=12, save_every=1, output_file="seed.h5", progress_interval=10**9, terminal_psi=tp)
        try:
            seed = tdgl.solve(dev, o1, **kw)
        except RuntimeError as exc:
            res.info.append(f"seed run raised {str(exc)[:80]}")
            res.outcome = "seed-refused"
            return res
        res.count("seed_last_dt_over_dt_init", int(float(seed.tdgl_data.state["dt"]) > 2 * s["dt_init"]))
        kw = dict(kw, seed_solution=seed)
        opts.solve_time = 0.3 if gentle else 2.0
        if case["seeded"] == "fixed":
            s = dict(s, adaptive=False, maxr=0)
            opts.adaptive = False
            opts.dt_init = s["dt_init"] = (2e-3 if gentle else 0.02)
            opts.solve_time = 20 * opts.dt_init
    try:
        if case.get("edit_after_build"):
            # window, multiplier and retry limit are edited on the options object between building the solver and running it
            want = (opts.adaptive_window, opts.adaptive_time_step_multiplier, opts.max_solve_retries)
            opts.adaptive_window, opts.adaptive_time_step_multiplier, opts.max_solve_retries = s["window"] + 3, 0.9, 2
            solver = tdgl.TDGLSolver(dev, opts, **kw)
            opts.adaptive_window, opts.adaptive_time_step_multiplier, opts.max_solve_retries = want
            solver.solve()
        else:
            tdgl.solve(dev, opts, **kw)
    except RuntimeError as exc:
        res.info.append(f"real run raised {str(exc)[:80]}")
    frames, _ = drivers.read_frames("out.h5")
    sq = [np.abs(fr["data"]["psi"]) ** 2 for fr in frames]
    dts = [float(np.atleast_1d(fr["records"]["dt"])[0]) for fr in frames[1:]]
    deltas = []
    proposal = s["dt_init"]
    nretry = 0
    for n, dt in enumerate(dts):
        if not s["adaptive"]:
            res.transitions += 1
            res.states.add("real;fixed-step")
            if dt != s["dt_init"]:
                res.violate("fixed-step-run-uses-another-dt", seeded=bool(case.get("seeded")), detail={"step": n, "dt": dt, "dt_init": s["dt_init"], "case": case})
                break
            continue
        cands = [proposal * s["mult"] ** j for j in range(s["maxr"] + 2)]
        j = next((j for j, c in enumerate(cands) if abs(c - dt) <= 1e-9 * c), None)
        res.transitions += 1
        res.states.add(f"real;post-window={n > s['window']};retries={j}")
        if j is None:
            res.violate("real-dt-not-from-rule", post_window=bool(n > s["window"]),
                        detail={"step": n, "dt": dt, "proposal": proposal, "case": case})
            break
        if j:
            nretry += 1
        if not (0 < dt <= s["dt_max"]):
            res.violate("dt-out-of-bounds", detail={"dt": dt})
        deltas.append(float(np.abs(sq[n + 1] - sq[n]).max()))
        proposal = rm_next_proposal(s, n, proposal, dt, deltas)
    res.count("real_steps", len(dts))
    res.count("retried", nretry)
    res.nontrivial = len(dts) > s["window"] + 2
    if case.get("seeded"):
        res.count("seeded_real_steps", len(dts))
    res.outcome = f"real;retries={'yes' if nretry else 'no'};tp={case.get('terminal_psi', '0')}"
    return res


def run_case(case):
    return run_script_case(case) if case["fam"] == "script" else run_real_case(case)
