"""Seams: every source of nondeterminism / environment answer the harness owns.

All substitutions are made inside the worker process on third-party or builtin objects
(builtins.input, numpy.random.default_rng, h5py methods, DataHandler/TDGLSolver methods looked up
by their documented names). Nothing in /repo is edited.
"""
from __future__ import annotations

import builtins
import contextlib
import hashlib
import os
import sys


def install_quiet():
    """Silence progress bars and logging in a worker (stderr -> /dev/null)."""
    os.environ.setdefault("TQDM_DISABLE", "1")
    try:
        devnull = open(os.devnull, "w")
        os.dup2(devnull.fileno(), 2)
    except Exception:
        pass


# ---------------------------------------------------------------------------------------------
@contextlib.contextmanager
def scripted_input(answers):
    """builtins.input answers from a script; running out of answers is a harness error."""
    answers = list(answers)
    calls = []

    def fake(prompt=""):
        calls.append(prompt)
        if not answers:
            raise AssertionError("input() script exhausted")
        return answers.pop(0)

    old = builtins.input
    builtins.input = fake
    try:
        yield calls
    finally:
        builtins.input = old


@contextlib.contextmanager
def seeded_default_rng(seed):
    """numpy.random.default_rng() (no argument) returns a generator seeded by the harness."""
    import numpy as np

    old = np.random.default_rng
    counter = [0]

    def factory(*a, **k):
        if a or k:
            return old(*a, **k)
        counter[0] += 1
        return old([seed, counter[0]])

    np.random.default_rng = factory
    try:
        yield counter
    finally:
        np.random.default_rng = old


# ---------------------------------------------------------------------------------------------
class InjectedFault(Exception):
    """The exception type injected by the fault enumerator (must propagate unchanged)."""


class H5Faults:
    """Counts / faults HDF5 *write* operations.

    Wrapped: Group.create_group, Group.__setitem__, AttributeManager.__setitem__,
    Dataset.__setitem__, Dataset.flush.  `arm(j, exc)` raises `exc` at the j-th counted
    operation (0-based) while `active` is true; counting is active only inside `window()`.
    """

    def __init__(self):
        import h5py

        self.h5py = h5py
        self.count = 0
        self.active = False
        self.fire_at = None
        self.exc = None
        self.fired = False
        self.log = []
        self._orig = {}

    def _wrap(self, cls, name, label):
        orig = getattr(cls, name)
        self._orig[(cls, name)] = orig
        faults = self

        def wrapper(obj, *a, **k):
            if faults.active:
                idx = faults.count
                faults.count += 1
                faults.log.append(label)
                if faults.fire_at is not None and idx == faults.fire_at and not faults.fired:
                    faults.fired = True
                    raise faults.exc
            return orig(obj, *a, **k)

        setattr(cls, name, wrapper)

    def install(self):
        h5py = self.h5py
        self._wrap(h5py.Group, "create_group", "create_group")
        self._wrap(h5py.Group, "__setitem__", "group_set")
        self._wrap(h5py.AttributeManager, "__setitem__", "attr_set")
        self._wrap(h5py.Dataset, "__setitem__", "dset_set")
        self._wrap(h5py.Dataset, "flush", "dset_flush")

    def uninstall(self):
        for (cls, name), orig in self._orig.items():
            setattr(cls, name, orig)
        self._orig.clear()

    def arm(self, j, exc):
        self.fire_at = j
        self.exc = exc
        self.fired = False

    @contextlib.contextmanager
    def window(self):
        old = self.active
        self.active = True
        try:
            yield
        finally:
            self.active = old


def open_h5_files():
    """Number of HDF5 file ids currently open in this process."""
    import h5py

    return h5py.h5f.get_obj_count(h5py.h5f.OBJ_ALL, h5py.h5f.OBJ_FILE)


def open_h5_file_names():
    import h5py

    names = []
    try:
        for fid in h5py.h5f.get_obj_ids(h5py.h5f.OBJ_ALL, h5py.h5f.OBJ_FILE):
            try:
                names.append(h5py.h5f.get_name(fid).decode())
            except Exception:
                names.append("?")
    except Exception:
        pass
    return names


# ---------------------------------------------------------------------------------------------
def fs_snapshot(root):
    """Recursive listing {relative path: (size, sha256)} of a directory."""
    out = {}
    root = os.path.abspath(root)
    for d, dirs, files in os.walk(root):
        dirs.sort()
        rel = os.path.relpath(d, root)
        if rel != ".":
            out[rel + "/"] = ("dir", "")
        for f in sorted(files):
            p = os.path.join(d, f)
            try:
                with open(p, "rb") as fh:
                    data = fh.read()
                out[os.path.normpath(os.path.join(rel, f))] = (len(data), hashlib.sha256(data).hexdigest())
            except OSError as e:
                out[os.path.normpath(os.path.join(rel, f))] = ("unreadable", str(e))
    return out


def tmp_listing():
    """Names in the system temp directory (to detect leaked TemporaryDirectory objects)."""
    import tempfile

    try:
        return set(os.listdir(tempfile.gettempdir()))
    except OSError:
        return set()
