"""E5 - interleaving explorer for the bodies of numba `prange` kernels, run on their Python source.

The jitted function's `py_func` is re-created with substituted globals:
  * `numba.prange(n)` yields only the iterations owned by the calling *virtual thread*;
  * `np.empty` / `np.zeros` return one shared buffer per call site order (so that all virtual threads
    write the same output, as the compiled kernel does), pre-filled with a NaN sentinel for np.empty;
  * every ndarray argument (and every ndarray found in the function's globals) is wrapped in a proxy
    whose element reads and writes are scheduling points and are logged as (R|W, array, element, iteration).
Virtual threads are real Python threads that pass a baton: exactly one runs between two scheduling
points, chosen by the explorer.  Exploration is CHESS-style: replay a prefix of choices, then keep
running the current thread; every alternative with at most `bound` preemptions is taken.
"""
from __future__ import annotations

import ast
import inspect
import itertools
import textwrap
import threading
import types

import numpy as np

_tls = threading.local()


class Abort(Exception):
    pass


class Scheduler:
    def __init__(self, nthreads):
        self.n = nthreads
        self.sems = [threading.Semaphore(0) for _ in range(nthreads)]
        self.ctrl = threading.Semaphore(0)
        self.finished = [False] * nthreads
        self.error = None
        self.log = []  # (tid, iteration, kind, array, element)
        self.current = None

    # called from a virtual thread
    def point(self, access):
        tid = _tls.tid
        self.log.append((tid, getattr(_tls, "iteration", None)) + access)
        self.ctrl.release()
        self.sems[tid].acquire()
        if self.error is not None:
            raise Abort()

    def worker(self, tid, fn):
        _tls.tid = tid
        _tls.iteration = None
        self.sems[tid].acquire()
        try:
            if self.error is None:
                fn()
        except Abort:
            pass
        except BaseException as exc:  # noqa: BLE001
            self.error = exc
        finally:
            self.finished[tid] = True
            self.ctrl.release()


class Execution:
    def __init__(self):
        self.points = []  # per decision: (enabled list canonical, running_still_enabled, chosen index)
        self.choices = []
        self.log = None
        self.outcome = None
        self.error = None


def run_schedule(make_threads, prefix):
    """make_threads() -> (list of thread callables, outcome function). Runs one complete execution."""
    fns, outcome_fn, sched_holder = make_threads()
    n = len(fns)
    sched = Scheduler(n)
    sched_holder.append(sched)
    threads = [threading.Thread(target=sched.worker, args=(t, f), daemon=True) for t, f in enumerate(fns)]
    for th in threads:
        th.start()
    x = Execution()
    running = None
    step = 0
    while True:
        enabled = [t for t in range(n) if not sched.finished[t]]
        if not enabled:
            break
        if running is not None and running in enabled:
            canon = [running] + [t for t in enabled if t != running]
            still = True
        else:
            canon = list(enabled)
            still = False
        if step < len(prefix):
            c = prefix[step]
            if c >= len(canon):
                sched.error = RuntimeError("replayed prefix diverged")
                for t in enabled:
                    sched.sems[t].release()
                raise RuntimeError("replayed prefix diverged: choice out of range")
        else:
            c = 0
        x.points.append((canon, still))
        x.choices.append(c)
        t = canon[c]
        running = t
        sched.sems[t].release()
        sched.ctrl.acquire()
        step += 1
        if sched.error is not None:
            for u in range(n):
                if not sched.finished[u]:
                    sched.sems[u].release()
            break
    for th in threads:
        th.join(timeout=10)
    x.log = sched.log
    x.error = sched.error
    if sched.error is None:
        x.outcome = outcome_fn()
    return x


def preemptions_before(x, i):
    c = 0
    for k in range(i):
        canon, still = x.points[k]
        if still and x.choices[k] != 0:
            c += 1
    return c


def explore(make_threads, bound, check, max_executions=200000):
    """returns dict(executions, decision_points, states, capped)"""
    stats = {"executions": 0, "points": 0, "states": set(), "capped": False}

    def rec(prefix):
        if stats["executions"] >= max_executions:
            stats["capped"] = True
            return
        x = run_schedule(make_threads, prefix)
        stats["executions"] += 1
        stats["points"] += len(x.points)
        prog = [0] * 8
        for (canon, still), c in zip(x.points, x.choices):
            prog[canon[c]] += 1
            stats["states"].add(tuple(prog))
        check(x)
        for i in range(len(prefix), len(x.points)):
            canon, still = x.points[i]
            cost = preemptions_before(x, i)
            if still:
                cost += 1
            if cost > bound:
                continue
            for alt in range(1, len(canon)):
                rec(x.choices[:i] + [alt])

    rec([])
    stats["states"] = len(stats["states"])
    return stats


# ---------------------------------------------------------------------------------------------
class Proxy:
    """ndarray whose element accesses are scheduling points"""

    def __init__(self, arr, name, holder):
        object.__setattr__(self, "_a", arr)
        object.__setattr__(self, "_n", name)
        object.__setattr__(self, "_h", holder)

    def _elems(self, idx):
        a = self._a
        ids = np.arange(a.size).reshape(a.shape)[idx]
        return tuple(np.atleast_1d(ids).ravel().tolist())

    def __getitem__(self, idx):
        h = self._h
        if h and getattr(_tls, "tid", None) is not None:
            h[-1].point(("R", self._n, self._elems(idx)))
        v = self._a[idx]
        return v.copy() if isinstance(v, np.ndarray) else v

    def __setitem__(self, idx, val):
        h = self._h
        if h and getattr(_tls, "tid", None) is not None:
            h[-1].point(("W", self._n, self._elems(idx)))
        self._a[idx] = val

    def __len__(self):
        return len(self._a)

    def __getattr__(self, k):
        return getattr(self._a, k)


def loop_carried_scalars(func):
    """names assigned inside a `for ... in numba.prange(...)` body that are live across iterations
    (assigned outside the loop as well, or augmented-assigned without a plain assignment earlier in the same body)."""
    src = textwrap.dedent(inspect.getsource(func))
    tree = ast.parse(src)
    bad = []
    fn = tree.body[0]
    outer_assigned = set()
    pr_loops = []

    class V(ast.NodeVisitor):
        def visit_For(self, node):
            it = node.iter
            is_pr = isinstance(it, ast.Call) and ((isinstance(it.func, ast.Attribute) and it.func.attr == "prange") or (isinstance(it.func, ast.Name) and it.func.id == "prange"))
            if is_pr:
                pr_loops.append(node)
            else:
                self.generic_visit(node)

        def visit_Assign(self, node):
            for t in node.targets:
                for n in ast.walk(t):
                    if isinstance(n, ast.Name):
                        outer_assigned.add(n.id)

        def visit_AugAssign(self, node):
            if isinstance(node.target, ast.Name):
                outer_assigned.add(node.target.id)

    V().visit(fn)
    for loop in pr_loops:
        plain_first = set()
        for stmt in loop.body:
            for node in ast.walk(stmt):
                if isinstance(node, ast.AugAssign) and isinstance(node.target, ast.Name):
                    nm = node.target.id
                    if nm not in plain_first:
                        bad.append(nm)
                elif isinstance(node, ast.Assign):
                    for t in node.targets:
                        if isinstance(t, ast.Name):
                            plain_first.add(t.id)
                            if t.id in outer_assigned:
                                # assigned before the loop and inside: only a problem if read after the loop; flag conservatively
                                pass
                elif isinstance(node, ast.For):
                    if isinstance(node.target, ast.Name):
                        plain_first.add(node.target.id)
    return sorted(set(bad)), len(pr_loops)


def make_kernel_harness(dispatcher, args, nthreads, iters_per_thread=None):
    """Returns make_threads() for explore(): virtual threads running dispatcher.py_func on shared proxies."""
    py = dispatcher.py_func
    holder = []  # current scheduler (last element)

    def make_threads():
        shared = {}
        counter = {}
        prox_args = [Proxy(a.copy(), f"arg{k}", holder) if isinstance(a, np.ndarray) else a for k, a in enumerate(args)]

        class FakeNp(types.ModuleType):
            def __getattr__(self, k):
                return getattr(np, k)

        fnp = FakeNp("np")

        def alloc(kind):
            def f(shape, dtype=float):
                tid = _tls.tid
                c = counter.setdefault((tid, kind), 0)
                counter[(tid, kind)] = c + 1
                key = (kind, c)
                if key not in shared:
                    base = np.full(shape, np.nan, dtype=dtype) if kind == "empty" else np.zeros(shape, dtype=dtype)
                    shared[key] = Proxy(base, f"{kind}{c}", holder)
                return shared[key]
            return f

        fnp.empty = alloc("empty")
        fnp.zeros = alloc("zeros")

        class FakeNumba(types.ModuleType):
            pass

        fnb = FakeNumba("numba")

        def prange(n):
            tid = _tls.tid
            mine = [i for i in range(n) if i % nthreads == tid]
            if iters_per_thread:
                mine = mine[:iters_per_thread]
            for i in mine:
                _tls.iteration = i
                yield i
            _tls.iteration = None

        fnb.prange = prange
        g = dict(py.__globals__)
        g["np"] = fnp
        g["numba"] = fnb
        for k, v in list(g.items()):
            if isinstance(v, np.ndarray):
                g[k] = Proxy(v, f"global:{k}", holder)
        f2 = types.FunctionType(py.__code__, g, py.__name__, py.__defaults__, py.__closure__)
        fns = [lambda: f2(*prox_args) for _ in range(nthreads)]

        def outcome():
            outs = {k: v._a.copy() for k, v in shared.items()}
            for k, a in enumerate(prox_args):
                if isinstance(a, Proxy):
                    outs[f"arg{k}"] = a._a.copy()
            return outs

        return fns, outcome, holder

    return make_threads


def conflicts(log):
    """pairs of accesses to one element from different iterations with at least one write"""
    by = {}
    for tid, it, kind, arr, elems in log:
        if it is None:
            continue
        for e in elems:
            by.setdefault((arr, e), []).append((it, kind))
    bad = []
    for key, acc in by.items():
        its_w = {it for it, k in acc if k == "W"}
        its_all = {it for it, k in acc}
        if its_w and len(its_all) > 1:
            bad.append((key, sorted(its_all)))
    return bad
