"""Child process of the C09 'session' family: one fresh process = one history.

    c09_session.py '<json list of operation names>'

Builds the reference inputs (device, options objects, parameters) once, applies the operations of the history in order -
every one of them a legitimate use of the public API that leaves the *logical* inputs of the reference simulations unchanged
(other solves on the same device / options / parameter objects, copies that are moved or re-meshed, post-processing, saving and
loading, pickling, queries, a failed and an aborted solve ...) - and then runs the reference simulations on the objects that
lived through the history.  Prints 'C09SESSION {json}' with one sha256 digest per reference output; the parent compares them
with the digests of the empty history (a pristine process).
"""
from __future__ import annotations

import hashlib
import json
import os
import pickle
import sys

OPS = [
    "solve_plain", "solve_screen", "solve_bias", "solve_tdep", "solve_adaptive", "solve_fail", "solve_abort", "solve_seeded",
    "copy_move", "remesh_copy", "shared_mesh_units", "postprocess", "save_load", "pickle", "edit_restore", "param_eval",
    "operators", "queries", "threads", "build_unrun",
    # the same geometry meshed earlier in the process with other targets (a mesh convergence study): meshing again must not depend on it
    "mesh_coarser_05", "mesh_coarser_12", "mesh_coarser_25", "mesh_finer", "mesh_minpoints",
]
MID = ["solve_plain", "solve_screen", "solve_tdep", "build_unrun", "edit_restore", "copy_move", "postprocess", "save_load"]
CORE = ["solve_screen", "solve_tdep", "copy_move", "postprocess", "edit_restore", "save_load"]


def _h():
    return hashlib.sha256()


def _upd(h, name, arr):
    import numpy as np

    a = np.ascontiguousarray(np.asarray(arr))
    h.update(name.encode())
    h.update(str(a.dtype).encode())
    h.update(str(a.shape).encode())
    h.update(a.tobytes())


def digest_solution_file(path):
    import h5py
    import numpy as np

    h = _h()

    def walk(g, prefix):
        for key in sorted(g.keys(), key=lambda k: (0, int(k), "") if k.lstrip("-").isdigit() else (1, 0, k)):
            o = g[key]
            if isinstance(o, h5py.Dataset):
                if not key.endswith(".pickle"):
                    _upd(h, prefix + key, o[()])
            else:
                for a in ("step", "time", "dt"):
                    if a in o.attrs:
                        _upd(h, f"{prefix}{key}.attr.{a}", np.asarray(o.attrs[a]))
                walk(o, prefix + key + "/")

    with h5py.File(path, "r") as f:
        walk(f, "")
    return h.hexdigest()


def tramp(x, y, z, *, t):
    import numpy as np

    s = 0.3 + 0.6 * t
    return np.stack([-s * y / 2, s * x / 2, np.zeros_like(x)], axis=1)


def tother(x, y, z, *, t):
    import numpy as np

    s = 0.9 - 0.4 * t
    return np.stack([-s * (y - 1.0) / 2, s * (x + 2.0) / 2, np.zeros_like(x)], axis=1)


def eps_t(r, *, t, vectorized=True):
    import numpy as np

    r = np.atleast_2d(r)
    return 1.0 - (0.25 + 0.1 * np.sin(0.9 * t + 0.3)) * np.exp(-((r[:, 0] - 0.8) ** 2 + (r[:, 1] + 0.4) ** 2))


def cur(t):
    return {"source": 0.2 + 0.3 * t, "drain": -0.2 - 0.3 * t}


def cur2(t):
    return {"source": -0.15 - 0.1 * t, "drain": 0.15 + 0.1 * t}


class _Abort(Exception):
    pass


def aborting(x, y, z, *, t):
    if t > 0.012:
        raise _Abort("scripted failure of a user callable")
    return tramp(x, y, z, t=t)


class Session:
    def __init__(self):
        import numpy as np
        import tdgl
        from mc import zoo

        self.np, self.tdgl, self.zoo = np, tdgl, zoo
        self.dev = zoo.device("G2", memo=False, lam=0.8)
        dt = 2.0**-7
        self.P_t = tdgl.Parameter(tramp, time_dependent=True)
        self.P_c = tdgl.sources.ConstantField(0.4, field_units="mT", length_units="um")
        self.O1 = tdgl.SolverOptions(solve_time=1.0, dt_init=2.0**-4, dt_max=0.25, adaptive=True, adaptive_window=2, adaptive_time_step_multiplier=0.5,
                                     save_every=2, include_screening=True, screening_tolerance=1e-2, output_file=os.path.abspath("r1.h5"),
                                     progress_interval=10**9, field_units="mT", current_units="uA")
        self.O2 = tdgl.SolverOptions(solve_time=6 * dt, skip_time=3 * dt, dt_init=dt, dt_max=dt, adaptive=False, save_every=1, terminal_psi=0.6 + 0.8j,
                                     output_file=os.path.abspath("r2.h5"), progress_interval=10**9, field_units="mT", current_units="uA")
        self.I1 = {"source": 0.25, "drain": -0.25}
        self.last = None
        self.n = 0

    def opts(self, **kw):
        self.n += 1
        dt = 2.0**-7
        o = dict(solve_time=4 * dt, dt_init=dt, dt_max=dt, adaptive=False, save_every=2, progress_interval=10**9, output_file=os.path.abspath(f"op{self.n}.h5"))
        o.update(kw)
        return self.tdgl.SolverOptions(**o)

    # ---- operations (each leaves the logical inputs of the reference runs unchanged) ----
    def solve_plain(self):
        self.last = self.tdgl.solve(self.dev, self.opts(), applied_vector_potential=0.3)

    def solve_screen(self):
        self.last = self.tdgl.solve(self.dev, self.opts(include_screening=True, screening_tolerance=1e-2), applied_vector_potential=0.7)

    def solve_bias(self):
        self.last = self.tdgl.solve(self.dev, self.opts(terminal_psi=0.5), applied_vector_potential=0.1, terminal_currents={"source": -0.3, "drain": 0.3})

    def solve_tdep(self):
        dt = 2.0**-7
        P = self.tdgl.Parameter(tother, time_dependent=True)
        self.last = self.tdgl.solve(self.dev, self.opts(skip_time=2 * dt, terminal_psi=None), applied_vector_potential=P, terminal_currents=cur2)

    def solve_adaptive(self):
        self.last = self.tdgl.solve(self.dev, self.opts(adaptive=True, dt_init=0.5, dt_max=1.0, adaptive_window=3, solve_time=3.0), applied_vector_potential=1.6)

    def solve_fail(self):
        try:
            self.tdgl.solve(self.dev, self.opts(dt_init=40.0, dt_max=40.0, solve_time=400.0), applied_vector_potential=2.5)
        except RuntimeError:
            pass

    def solve_abort(self):
        # a user callable raises in the middle of a run that uses the reference run's own options object
        try:
            self.tdgl.solve(self.dev, self.opts(), applied_vector_potential=self.tdgl.Parameter(aborting, time_dependent=True))
        except _Abort:
            pass

    def solve_seeded(self):
        s0 = self.tdgl.solve(self.dev, self.opts(include_screening=True, screening_tolerance=1e-2), applied_vector_potential=0.5)
        self.last = self.tdgl.solve(self.dev, self.opts(), applied_vector_potential=0.2, seed_solution=s0)

    def copy_move(self):
        d2 = self.dev.copy(with_mesh=True)
        d2.translate(dx=2.5, dy=-1.0, dz=0.5, inplace=True)
        self.tdgl.solve(d2, self.opts(), applied_vector_potential=0.3)
        d3 = self.dev.copy(with_mesh=True)
        d3.rotate(30)
        with self.dev.copy(with_mesh=True).translation(1.0, 1.0):
            pass

    def remesh_copy(self):
        d2 = self.dev.copy(with_mesh=False)
        d2.make_mesh(max_edge_length=0.8, smooth=2)
        self.tdgl.solve(d2, self.opts(), applied_vector_potential=0.3, terminal_currents={"source": 0.1, "drain": -0.1})

    def _mesh_other(self, **kw):
        d = self.zoo.device("G2", memo=False, lam=0.8, mesh=False)
        d.make_mesh(**kw)

    def mesh_coarser_05(self):
        self._mesh_other(max_edge_length=0.525, smooth=0)

    def mesh_coarser_12(self):
        self._mesh_other(max_edge_length=0.6, smooth=0)

    def mesh_coarser_25(self):
        self._mesh_other(max_edge_length=0.625, smooth=0)

    def mesh_finer(self):
        self._mesh_other(max_edge_length=0.45, smooth=0)

    def mesh_minpoints(self):
        self._mesh_other(max_edge_length=1.3, min_points=150, smooth=0)

    def shared_mesh_units(self):
        d2 = self.zoo.with_mesh_of(self.dev, "G2", "nm", lam=0.8)
        self.tdgl.solve(d2, self.opts(field_units="uT", current_units="nA", include_screening=True, screening_tolerance=1e-2), applied_vector_potential=300.0)

    def postprocess(self):
        np = self.np
        sol = self.last
        if sol is None:
            sol = self.tdgl.solve(self.dev, self.opts(include_screening=True, screening_tolerance=1e-2), applied_vector_potential=0.6, terminal_currents=self.I1)
        sol.solve_step = 1
        _ = sol.current_density
        pts = np.array([[0.1, 0.2], [1.0, -0.5], [-2.0, 1.0]])
        sol.field_at_position(pts, zs=0.7, units="uT")
        sol.field_at_position(np.column_stack([pts, [0.5, 1.0, 2.0]]), vector=True, return_sum=False)
        sol.vector_potential_at_position(pts, zs=1.2, units="mT * um")
        sol.interp_current_density(pts, dataset="supercurrent", units="mA/um")
        sol.interp_order_parameter(pts)
        sol.grid_current_density(grid_shape=(12, 9))
        _ = sol.vorticity
        sol.boundary_phases()
        _ = sol.times
        sol.solve_step = -1

    def save_load(self):
        sol = self.last
        if sol is None:
            sol = self.tdgl.solve(self.dev, self.opts(), applied_vector_potential=self.P_c)
        self.n += 1
        p = os.path.abspath(f"copy{self.n}.h5")
        sol.to_hdf5(p)
        s2 = self.tdgl.Solution.from_hdf5(p)
        self.tdgl.solve(s2.device, self.opts(), applied_vector_potential=0.3, seed_solution=s2)
        self.dev.to_hdf5(os.path.abspath(f"dev{self.n}.h5"))
        d4 = self.tdgl.Device.from_hdf5(os.path.abspath(f"dev{self.n}.h5"))
        self.tdgl.solve(d4, self.opts(), applied_vector_potential=0.3)

    def pickle(self):
        import copy

        d = pickle.loads(pickle.dumps(self.dev))
        self.tdgl.solve(d, self.opts(), applied_vector_potential=0.3)
        pickle.loads(pickle.dumps(self.P_c * 2.0 + self.P_c))
        copy.deepcopy(self.O1)
        copy.deepcopy(self.dev.mesh)
        copy.deepcopy(self.dev.layer)

    def edit_restore(self):
        # the reference options objects are used for other runs and then put back field by field
        import dataclasses

        for O in (self.O1, self.O2):
            saved = {f.name: getattr(O, f.name) for f in dataclasses.fields(O)}
            self.n += 1
            O.output_file = os.path.abspath(f"edit{self.n}.h5")
            O.dt_max = 2.0**-6
            O.dt_init = 2.0**-6
            O.adaptive = False
            O.include_screening = not O.include_screening
            O.terminal_psi = 0.25
            O.solve_time = 5 * 2.0**-6
            O.skip_time = 2.0**-6
            O.save_every = 3
            O.screening_tolerance = 5e-2
            O.screening_step_size = 0.3
            O.field_units = "uT"
            O.current_units = "mA"
            self.tdgl.solve(self.dev, O, applied_vector_potential=150.0, terminal_currents={"source": 1e-4, "drain": -1e-4})
            for k, v in saved.items():
                setattr(O, k, v)

    def param_eval(self):
        np = self.np
        x = np.linspace(-1, 1, 7)
        for t in (0.0, 0.3, 0.3, 11.0, -1.0):
            self.P_t(x, 2 * x, 0 * x, t=t)
        self.P_c(x, x, 0 * x)
        self.P_c(x[:3], x[:3], 0 * x[:3] + 2.0)
        C = self.P_t * 0.5 + self.P_c
        C(x, x, 0 * x, t=0.25)
        (2.0 * self.P_c - self.P_c)(x, x, 0 * x)

    def operators(self):
        np = self.np
        from tdgl.finite_volume.operators import MeshOperators
        from tdgl.solver.options import SparseSolver

        mesh = self.dev.mesh
        fixed = np.array([0, 3, 5])
        ops = MeshOperators(mesh, SparseSolver.SUPERLU, fixed_sites=fixed, fix_psi=True)
        ops.build_operators()
        ops.set_link_exponents(np.ones((len(mesh.edge_mesh.edges), 2)) * 0.37)
        ops.set_link_exponents(np.zeros((len(mesh.edge_mesh.edges), 2)))
        ops2 = MeshOperators(mesh, SparseSolver.SUPERLU, fixed_sites=fixed, fix_psi=False)
        ops2.build_operators()
        ops2.set_link_exponents(np.ones((len(mesh.edge_mesh.edges), 2)) * 0.11)
        mesh.smooth(3)
        self.n += 1
        mesh.to_hdf5(__import__("h5py").File(os.path.abspath(f"mesh{self.n}.h5"), "w"))

    def queries(self):
        np = self.np
        d = self.dev
        d.terminal_info()
        d.boundary_sites()
        d.contains_points(np.array([[0.0, 0.0], [0.3, 0.2], [9.0, 9.0]]))
        d.contains_points(np.array([[0.0, 0.0], [0.3, 0.2]]), index=True)
        d.mesh_stats_dict()
        _ = d.probe_point_indices, d.points, d.triangles, d.edges, d.edge_lengths, d.areas, d.polygons
        _ = d.Bc2, d.A0, d.K0, d.kappa, d.Lambda
        repr(d)
        _ = d == d.copy()

    def build_unrun(self):
        # another problem on the same device is set up (not run) and stays alive
        self.kept = getattr(self, "kept", [])
        self.kept.append(self.tdgl.TDGLSolver(self.dev, self.opts(include_screening=True, screening_tolerance=1e-2), applied_vector_potential=1.1,
                                              terminal_currents={"source": 0.2, "drain": -0.2}))

    def threads(self):
        import numba

        numba.set_num_threads(3)

    # ---- reference runs ----
    def reference(self, mids=()):
        np = self.np
        out = {}
        # the first reference problem is set up as a documented TDGLSolver object; operations of the history marked 'mid:' happen
        # between setting it up and running it (e.g. other problems of a sweep prepared or solved in the meantime)
        solver1 = self.tdgl.TDGLSolver(self.dev, self.O1, applied_vector_potential=self.P_t, disorder_epsilon=eps_t)
        for op in mids:
            getattr(self, op)()
        s1 = solver1.solve()
        out["R1.file"] = digest_solution_file(s1.path)
        pts = np.array([[0.1, 0.2], [1.0, -0.5], [-2.0, 1.0], [0.3, 0.2]])
        h = _h()
        s1.solve_step = 2
        _upd(h, "Bz", np.asarray(s1.field_at_position(pts, zs=0.7, with_units=False)))
        _upd(h, "A", np.asarray(s1.vector_potential_at_position(pts, zs=1.2, with_units=False)))
        _upd(h, "K", np.asarray(s1.current_density.magnitude))
        _upd(h, "times", np.asarray(s1.times))
        _upd(h, "dt", np.asarray(s1.dynamics.dt))
        out["R1.post"] = h.hexdigest()
        s2 = self.tdgl.solve(self.dev, self.O2, applied_vector_potential=self.P_c, terminal_currents=cur)
        out["R2.file"] = digest_solution_file(s2.path)
        h = _h()
        _upd(h, "mu", np.asarray(s2.dynamics.mu))
        _upd(h, "theta", np.asarray(s2.dynamics.theta))
        _upd(h, "psi", np.asarray(s2.tdgl_data.psi))
        out["R2.post"] = h.hexdigest()
        # the reference inputs themselves: what the caller handed in must still be what it was
        h = _h()
        m = self.dev.mesh
        for nm in ("sites", "elements", "boundary_indices", "areas", "dual_sites"):
            _upd(h, nm, getattr(m, nm))
        for nm in ("centers", "edges", "boundary_edge_indices", "directions", "edge_lengths", "dual_edge_lengths"):
            _upd(h, nm, getattr(m.edge_mesh, nm))
        for p in self.dev.polygons:
            _upd(h, "poly." + p.name, p.points)
        _upd(h, "probes", self.dev.probe_points)
        h.update(repr((self.dev.layer.coherence_length, self.dev.layer.london_lambda, self.dev.layer.thickness, self.dev.layer.z0, self.dev.layer.gamma, self.dev.layer.u)).encode())
        h.update(repr(sorted((k, repr(v)) for k, v in vars(self.O1).items() if k != "output_file")).encode())
        h.update(repr(sorted((k, repr(v)) for k, v in vars(self.O2).items() if k != "output_file")).encode())
        out["inputs"] = h.hexdigest()
        # the reference device built again from its definition, after the history: meshing the same geometry with the same settings
        # gives the same mesh whatever was meshed before in this process
        h = _h()
        d5 = self.zoo.device("G2", memo=False, lam=0.8, mesh=False)
        d5.make_mesh(max_edge_length=0.5, smooth=0)  # first: a fine target is the most sensitive to where the refinement starts
        _upd(h, "half.sites", d5.mesh.sites)
        _upd(h, "half.elements", d5.mesh.elements)
        for kw in (dict(), dict(density="fine"), dict(smooth=2)):
            d3 = self.zoo.device("G2", memo=False, lam=0.8, **kw)
            for nm in ("sites", "elements", "boundary_indices", "areas"):
                _upd(h, nm, getattr(d3.mesh, nm))
            _upd(h, "edges", d3.mesh.edge_mesh.edges)
        d4 = self.dev.copy(with_mesh=False)
        d4.make_mesh(max_edge_length=0.8, smooth=2)
        _upd(h, "copy.sites", d4.mesh.sites)
        _upd(h, "copy.elements", d4.mesh.elements)
        out["R3.mesh"] = h.hexdigest()
        return out


def main():
    history = json.loads(sys.argv[1])
    sys.path.insert(0, os.environ["VERIF_REPO"])
    sys.path.insert(0, os.environ["VERIF_HOME"])
    os.environ["TQDM_DISABLE"] = "1"
    import logging
    import warnings

    logging.disable(logging.CRITICAL)
    warnings.simplefilter("ignore")
    import numba

    numba.set_num_threads(2)
    S = Session()
    mids = [op[4:] for op in history if op.startswith("mid:")]
    for op in history:
        if op.startswith("mid:"):
            continue
        try:
            getattr(S, op)()
        except Exception as e:  # an operation of the alphabet succeeds on a correct tree: report which one failed
            import traceback

            print("C09SESSION " + json.dumps({"error": f"{op}: {type(e).__name__}: {e}", "tb": traceback.format_exc()[-1500:]}))
            return
    try:
        out = S.reference(mids)
    except Exception as e:
        import traceback

        print("C09SESSION " + json.dumps({"error": f"reference: {type(e).__name__}: {e}", "tb": traceback.format_exc()[-1500:]}))
        return
    print("C09SESSION " + json.dumps(out))


if __name__ == "__main__":
    main()
